#!/bin/sh
# tools/fidelity.sh <N> <reps> [patch.diff ...]   (DESIGN 8.3, "the other direction")
# Runs the first N cases of check C06 (K-thread vs 1-thread, unsampled solver) against the REAL
# build — real rayon, real threads, guard off — of /repo's HEAD and of HEAD + each patch, in
# scratch worktrees. Uncontrolled threads: NOT part of any verdict or registered command; it
# only shows whether the rayon stand-in hides or invents behaviour of the real pool.
set -u
N="$1"; REPS="$2"; shift 2
HERE="$(cd "$(dirname "$0")/.." && pwd)"
S=$(mktemp -d /tmp/fidelity.XXXXXX)
trap 'git -C /repo worktree remove --force "$S/repo" >/dev/null 2>&1; rm -rf "$S"' EXIT
"$HERE/sim/target/release/dumpcases" "$N" > "$S/cases.jsonl" 2>/dev/null
echo "cases: $(wc -l < "$S/cases.jsonl") (ill-conditioned by the harness's guard: $(grep -c '"ill":"' "$S/cases.jsonl"))"
git -C /repo worktree add --detach "$S/repo" HEAD >/dev/null 2>&1 || exit 2
cp -r "$HERE/tools/realprobe" "$S/realprobe"; rm -rf "$S/realprobe/target"
sed -i "s#path = \"/repo\"#path = \"$S/repo\"#" "$S/realprobe/Cargo.toml"
for P in "-" "$@"; do
  git -C "$S/repo" checkout -q -- .
  if [ "$P" != "-" ]; then git -C "$S/repo" apply "$P" || { echo "$P: does not apply"; continue; }; fi
  (cd "$S/realprobe" && cargo build --release --offline -q 2>"$S/build.log") || { echo "$P: build failed"; tail -5 "$S/build.log"; continue; }
  printf "%s: " "$(basename "$P")"
  "$S/realprobe/target/release/realprobe" --batch "$S/cases.jsonl" "$REPS" 2>/dev/null
done
