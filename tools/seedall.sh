#!/bin/sh
# tools/seedall.sh [seed-id...]  — (re-)evaluate seeded changes listed in seeded/INDEX.json against
# the current checks (tools/seedq.sh: independent confirmation + every check, quick tier) and
# rewrite seeded/<id>/ from the result. Sources are the sub-agents' output directories under
# /tmp/seed, or seeded/<id>/ itself once kept.
HERE="$(cd "$(dirname "$0")/.." && pwd)"
IDS="${*:-$(python3 -c "import json;print(' '.join(json.load(open('$HERE/seeded/INDEX.json'))))")}"
for id in $IDS; do
  (
    eval "$(python3 - "$HERE" "$id" <<'PY'
import json,sys,shlex
here,sid=sys.argv[1:3]
e=json.load(open(here+'/seeded/INDEX.json'))[sid]
print('SRC=%s; I=%s; PROP=%s; NEEDS=%s; HIST=%s' % (shlex.quote(e['src']), e['i'], e['property'], shlex.quote(e['needs']), shlex.quote(e.get('history',''))))
PY
)"
    W=$(mktemp -d /tmp/seedall.XXXXXX)
    if [ -f "/tmp/seed/$SRC/patch$I.diff" ]; then
      cp "/tmp/seed/$SRC/patch$I.diff" "$W/patch1.diff"; cp "/tmp/seed/$SRC/demo$I.rs" "$W/demo1.rs"; cp "/tmp/seed/$SRC/notes$I.md" "$W/notes1.md" 2>/dev/null
      [ -f "/tmp/seed/$SRC/patch$I.orig.diff" ] && cp "/tmp/seed/$SRC/patch$I.orig.diff" "$W/patch.orig.diff"
    else
      cp "$HERE/seeded/$id/patch.diff" "$W/patch1.diff"; cp "$HERE/seeded/$id/demo.rs" "$W/demo1.rs"; cp "$HERE/seeded/$id/notes.md" "$W/notes1.md" 2>/dev/null
      [ -f "$HERE/seeded/$id/patch.orig.diff" ] && cp "$HERE/seeded/$id/patch.orig.diff" "$W/patch.orig.diff"
    fi
    "$HERE/tools/seedq.sh" "$W" 1
    SEED_HISTORY="$HIST" python3 "$HERE/tools/seedkeep.py" "$W" 1 "$id" "$PROP" "$NEEDS"
    [ -f "$W/patch.orig.diff" ] && cp "$W/patch.orig.diff" "$HERE/seeded/$id/"
    cp "$W/eval1.txt" "$HERE/seeded/$id/eval.txt"
    rm -rf "$W"
  ) &
  # at most 3 evaluations run at a time (seedq), but do not fork everything at once
  sleep 1
done
wait
