#!/bin/sh
# tools/mutcheck.sh <patch.diff | -> <ID> [ID...]
# Sensitivity experiments (DESIGN 8.2): applies a patch to a scratch worktree of /repo's HEAD,
# builds a scratch copy of the simulator against it and runs the named checks (quick tier unless
# VERIF_TIER says otherwise). Nothing under /repo or /verif is modified; evidence and replay
# files go to the scratch directory, which is removed afterwards (KEEP=1 keeps it).
# Prints one line per check: "<ID> exit=<code> <last line of the check>".
set -u
PATCH="$1"; shift
case "$PATCH" in -) ;; /*) ;; *) PATCH="$(pwd)/$PATCH";; esac
S=$(mktemp -d /tmp/mut.XXXXXX)
trap 'if [ -z "${KEEP:-}" ]; then git -C /repo worktree remove --force "$S/repo" >/dev/null 2>&1; rm -rf "$S"; fi' EXIT
git -C /repo worktree add --detach "$S/repo" HEAD >/dev/null 2>&1 || { echo "cannot create worktree"; exit 2; }
if [ "$PATCH" != "-" ]; then
  git -C "$S/repo" apply "$PATCH" || { echo "patch does not apply"; exit 2; }
fi
mkdir -p "$S/verif"
rsync -a --exclude target --exclude repo /verif/sim/ "$S/verif/sim/"
ln -s "$S/repo" "$S/verif/sim/repo"
cp -r /verif/sim/target "$S/verif/sim/target" 2>/dev/null
cp /verif/KNOWN_FINDINGS.txt "$S/verif/" 2>/dev/null
cd "$S/verif/sim" && CARGO_NET_OFFLINE=true cargo build --release --offline -q 2>"$S/build.log" || { echo "BUILD FAILED"; tail -20 "$S/build.log"; exit 2; }
cd "$S/verif"
for ID in "$@"; do
  VERIF_DIR="$S/verif" "$S/verif/sim/target/release/check" "$ID" --tier "${VERIF_TIER:-quick}" >"$S/$ID.log" 2>/dev/null
  code=$?
  echo "$ID exit=$code $(grep -E "^violation" "$S/$ID.log" | head -1 | cut -c1-220)"
  echo "    $(tail -1 "$S/$ID.log")"
done
