#!/usr/bin/env python3
"""Generates the sensitivity mutants of DESIGN 8.2 as unified diffs against /repo HEAD
(written to /verif/mutants/<name>.diff, with the checks expected to catch each one in
/verif/mutants/EXPECT.json). Nothing under /repo is modified."""
import json, os, subprocess, tempfile, shutil
M = []
def m(name, file, old, new, expect, count=1):
    M.append((name, file, old, new, expect, count))

V='src/solve/vanilla.rs'; E='src/solve/external.rs'; D='src/solve/data.rs'; L='src/lib.rs'; MU='src/solve/multinomial.rs'; MA='src/main.rs'; G='src/gambit.rs'; J='src/json.rs'; A='src/auto.rs'
# --- schedule / thread-count bugs
m('D1-work-not-cleared', V, "            work.clear();\n", "", ['C06','C02'])
m('D1-payoffs-not-cleared', V, "            payoffs.clear();\n", "", ['C06','C02'])
m('D2-work-not-cleared', E, "    work.work.clear();\n", "", ['C07','C05'])
m('fetch_add-to-load-store', V, "        self.fetch_add(other, Ordering::Relaxed);", "        self.store(self.load(Ordering::Relaxed) + other, Ordering::Relaxed);", ['C06'])
m('external-payoffs-not-cleared', E, "    work.payoffs.clear();\n", "", ['C07'])
m('multi-skip-cum-strat', V, "                info.update_cum_strat(*player.num.ind(&p_player));\n", "                if p_chance > 0.5 { info.update_cum_strat(*player.num.ind(&p_player)); }\n", ['C06','C08'])
m('draw-not-cached-chance', D, "            self.cached = res + 1;\n            res\n        } else {\n            self.cached - 1", "            res\n        } else {\n            self.cached - 1", ['C07','C10'])
m('draw-not-cached-player', E, "            self.cached = res + 1;\n            res\n        } else {\n            self.cached - 1", "            res\n        } else {\n            self.cached - 1", ['C07','C10'])
m('chance-reset-missing-multi', V, "    fn advance(&mut self) {\n        self.get_mut().unwrap().reset()\n    }", "    fn advance(&mut self) {}", ['C07','C10','C08'])
# --- numerical semantics
m('player-two-sign', V, "        (PlayerNum::Two, [one, _]) => -one * p_chance,", "        (PlayerNum::Two, [one, _]) => one * p_chance,", ['C02','C03','C08'])
m('missing-chance-reach', V, "        (PlayerNum::One, [_, two]) => p_chance * two,", "        (PlayerNum::One, [_, two]) => two,", ['C08','C02'])
m('discount-before-match', V, "        params.regret_match(&mut *self.cum_regret, &mut self.strat);\n        params.discount_cum_regret(it, &mut *self.cum_regret);\n        params.discount_average_strat(it, &mut self.cum_strat);", "        params.discount_cum_regret(it, &mut *self.cum_regret);\n        params.regret_match(&mut *self.cum_regret, &mut self.strat);\n        params.discount_average_strat(it, &mut self.cum_strat);", ['C08'])
m('discount-it-plus-one', D, "        let pos = Self::gen_discount(it, self.pos_regret);", "        let pos = Self::gen_discount(it + 1, self.pos_regret);", ['C08'])
m('external-avg-weight-it', E, "        params.discount_average_strat(if FIRST { it - 1 } else { it }, &mut self.reg.cum_strat);", "        params.discount_average_strat(it, &mut self.reg.cum_strat);", ['C08'])
m('lcfr-is-cfr-plus', D, "            pos_regret: 1.0,\n            neg_regret: 1.0,\n            strat: 1.0,", "            pos_regret: f64::INFINITY,\n            neg_regret: f64::NEG_INFINITY,\n            strat: 2.0,", ['C08'])
m('default-is-lcfr', D, "        Self::dcfr()\n    }\n}", "        Self::lcfr()\n    }\n}", ['C08'])
m('bound-no-positive-part', D, "        2.0 * f64::max(\n            cum_reg\n                .into_floats_mut()\n                .map(|&mut r| r)\n                .reduce(f64::max)\n                .unwrap_or(0.0),\n            0.0,\n        ) / it as f64", "        2.0 * cum_reg\n                .into_floats_mut()\n                .map(|&mut r| r)\n                .reduce(f64::max)\n                .unwrap_or(0.0)\n         / it as f64", ['C02','C05'])
m('bound-no-factor-two', D, "        2.0 * f64::max(\n            cum_reg", "        1.0 * f64::max(\n            cum_reg", ['C02'])
m('bound-divided-by-it-plus-one', D, "            0.0,\n        ) / it as f64", "            0.0,\n        ) / (it + 1) as f64", ['C02'])
# --- early stop
m('stop-le', V, "            if f64::max(reg_one, reg_two) < max_reg {\n                break;\n            }\n        }\n    });", "            if f64::max(reg_one, reg_two) <= max_reg {\n                break;\n            }\n        }\n    });", ['C09'])
m('stop-le-single', V, "        if f64::max(reg_one, reg_two) < max_reg {\n            break;\n        }\n    }\n    let strats = player_infosets.map(|player| {\n        Vec::from(player)\n            .into_iter()\n            .flat_map(|info| Vec::from(info.into_inner().into_avg_strat()))", "        if f64::max(reg_one, reg_two) <= max_reg {\n            break;\n        }\n    }\n    let strats = player_infosets.map(|player| {\n        Vec::from(player)\n            .into_iter()\n            .flat_map(|info| Vec::from(info.into_inner().into_avg_strat()))", ['C09'])
m('stop-one-player-only', E, "        if f64::max(reg_one, reg_two) < max_reg {\n            break;\n        }\n    }\n    let strats = [player_one, player_two].map(|player| {\n        Vec::from(player)\n            .into_iter()\n            .flat_map(|info| Vec::from(info.into_inner().reg.into_avg_strat()))", "        if reg_one < max_reg {\n            break;\n        }\n    }\n    let strats = [player_one, player_two].map(|player| {\n        Vec::from(player)\n            .into_iter()\n            .flat_map(|info| Vec::from(info.into_inner().reg.into_avg_strat()))", ['C09'])
# --- sampling
m('multinomial-reversed', MU, "            if val < &remaining {", "            if val > &remaining {", ['C10','C04','C08'])
m('multinomial-off-by-one', MU, "            init_probs: &probs[..probs.len() - 1],", "            init_probs: &probs[..probs.len().saturating_sub(2)],", ['C10'])
# --- totality
m('pool-error-unwrap', V, "    let pool = ThreadPoolBuilder::new()\n        .num_threads(num_threads.get())\n        .build()?;", "    let pool = ThreadPoolBuilder::new()\n        .num_threads(num_threads.get())\n        .build()\n        .unwrap();", ['C05'])
m('softmax-overflow-again', D, "                .reduce(if self.no_positive > 0.0 {\n                    f64::max\n                } else {\n                    f64::min\n                })", "                .reduce(f64::max)", ['C05'])
m('threads-fallback-two', L, "            .unwrap_or(NonZeroUsize::new(1).unwrap());", "            .unwrap_or(NonZeroUsize::new(2).unwrap());", ['C05'])
# --- CLI
m('cli-lcfr-is-cfr-plus', MA, "            Discount::Lcfr => RegretParams::lcfr(),", "            Discount::Lcfr => RegretParams::cfr_plus(),", ['C16'])
m('cli-method-swapped', MA, "        Method::Sampled => SolveMethod::Sampled,\n        Method::External => SolveMethod::External,", "        Method::Sampled => SolveMethod::External,\n        Method::External => SolveMethod::Sampled,", ['C16'])
m('cli-clip-inverted', MA, "    if pruned_info.regret() < info.regret() {", "    if pruned_info.regret() > info.regret() {", ['C16'])
m('cli-clip-le', MA, "    if pruned_info.regret() < info.regret() {", "    if pruned_info.regret() <= info.regret() {", [])
m('cli-sum-sign', MA, "        player_two_utility: info.player_utility(PlayerNum::Two) + sum,", "        player_two_utility: info.player_utility(PlayerNum::Two) - sum,", ['C15'])
m('cli-auto-gambit-first', A, "    if let Ok(res) = json::from_str(&buff) {\n        res\n    } else if let Ok(res) = gambit::from_str(&buff) {", "    if let Ok(res) = gambit::from_str(&buff) {\n        res\n    } else if let Ok(res) = json::from_str(&buff) {", [])
m('cli-t-zero-not-unlimited', MA, "    let max_iters = if args.max_iters == 0 {\n        u64::MAX", "    let max_iters = if args.max_iters == 0 {\n        1000", ['C16'])
m('cli-parallel-ignored', MA, "            args.parallel,\n", "            1,\n", ['C16'])
m('cli-regret-reports-p1-only', MA, "        regret: info.regret(),", "        regret: info.player_regret(PlayerNum::One),", ['C15'])
m('gambit-interior-payoffs-dropped', G, "                                cum_payoff: self.cum_payoff + node_payoff,\n                            },\n                        )\n                    })\n                    .collect();\n                actions.sort_unstable_by", "                                cum_payoff: self.cum_payoff,\n                            },\n                        )\n                    })\n                    .collect();\n                actions.sort_unstable_by", ['C15','C16'])
m('gambit-no-action-sort', G, "                actions.sort_unstable_by(|(act1, _), (act2, _)| act1.cmp(act2));\n", "", ['C15','C17'])
# --- rejection
m('chance-zero-accepted', L, "                    if prob > 0.0 && prob.is_finite() {", "                    if prob >= 0.0 && prob.is_finite() {", ['C17'])
m('no-actions-equal-check', L, "                                if *info.actions != *actions {\n                                    Err(GameError::ActionsNotEqual)\n                                } else if", "                                if false {\n                                    Err(GameError::ActionsNotEqual)\n                                } else if", ['C17'])
m('no-recall-check', L, "                                } else if &info.prev_infoset != player_num.ind(&prev_infosets) {", "                                } else if false {", ['C17','C05'])
m('no-prob-equal-check', L, "                                if *data.probs != *probs {", "                                if false {", ['C17'])
m('no-constant-sum-check', G, "    if (max - min) * 1000.0 > (one_max - one_min) {", "    if false {", ['C17'])
m('no-two-player-check', G, "    if gambit.player_names().len() != 2 {", "    if false {", ['C17'])
m('json-trailing-ignored', J, "    let definition = serde_json::from_reader(reader).expect(\n        \"couldn't parse json game definition : https://github.com/erikbrinkman/cfr#json-error\",\n    );", "    let mut de = serde_json::Deserializer::from_reader(reader);\n    let definition = serde::Deserialize::deserialize(&mut de).expect(\n        \"couldn't parse json game definition : https://github.com/erikbrinkman/cfr#json-error\",\n    );", ['C17'])
m('single-multi-check-dropped', L, "                        if player_num.ind(single_infosets).contains_key(&infoset) {\n                            return Err(GameError::ActionsNotEqual);\n                        }\n", "", ['C17','C05'])
m('truncate-zero-again', L, "                if total > 0.0 {\n                    for p in strat.iter_mut() {\n                        *p = if *p > thresh { *p / total } else { 0.0 }\n                    }\n                }", "                for p in strat.iter_mut() {\n                    *p = if *p > thresh { *p / total } else { 0.0 }\n                }", ['C15','C16'])

def main():
    out = '/verif/mutants'
    os.makedirs(out, exist_ok=True)
    for f in os.listdir(out):
        if f.endswith('.diff'): os.remove(os.path.join(out, f))
    expect = {}
    tmp = tempfile.mkdtemp(prefix='mutgen.')
    try:
        subprocess.run(['git','-C','/repo','worktree','add','--detach',tmp+'/repo','HEAD'],check=True,capture_output=True)
        for name,file,old,new,exp,count in M:
            path=os.path.join(tmp,'repo',file)
            s=open(path).read()
            if s.count(old)!=count:
                print('SKIP',name,'pattern count',s.count(old)); continue
            open(path,'w').write(s.replace(old,new))
            d=subprocess.run(['git','-C',tmp+'/repo','diff'],capture_output=True,text=True).stdout
            open(os.path.join(out,name+'.diff'),'w').write(d)
            subprocess.run(['git','-C',tmp+'/repo','checkout','--','.'],check=True)
            expect[name]=exp
    finally:
        subprocess.run(['git','-C','/repo','worktree','remove','--force',tmp+'/repo'],capture_output=True)
        shutil.rmtree(tmp,ignore_errors=True)
    json.dump(expect,open(os.path.join(out,'EXPECT.json'),'w'),indent=1)
    print('wrote',len(expect),'mutants')
main()
