use cfr::{Game, GameNode, IntoGameNode, PlayerNum, RegretParams, SolveMethod};
use serde_json::Value;
use std::collections::BTreeMap;

#[derive(Clone)]
enum N {
    T(f64),
    C(Option<String>, Vec<(f64, N)>),
    P(usize, String, Vec<(String, N)>),
}
impl IntoGameNode for N {
    type PlayerInfo = String;
    type Action = String;
    type ChanceInfo = String;
    type Outcomes = Vec<(f64, N)>;
    type Actions = Vec<(String, N)>;
    fn into_game_node(self) -> GameNode<Self> {
        match self {
            N::T(x) => GameNode::Terminal(x),
            N::C(i, o) => GameNode::Chance(i, o),
            N::P(p, i, a) => GameNode::Player(if p == 0 { PlayerNum::One } else { PlayerNum::Two }, i, a),
        }
    }
}
fn jf(v: &Value) -> f64 {
    match v {
        Value::String(s) => f64::from_bits(u64::from_str_radix(s.split('|').next().unwrap(), 16).unwrap()),
        v => v.as_f64().unwrap(),
    }
}
fn parse(v: &Value) -> N {
    if let Some(t) = v.get("t") {
        N::T(jf(t))
    } else if let Some(o) = v.get("o") {
        N::C(v["c"].as_str().map(|s| s.to_string()), o.as_array().unwrap().iter().map(|e| (jf(&e[1]), parse(&e[2]))).collect())
    } else {
        N::P(v["p"].as_u64().unwrap() as usize, v["i"].as_str().unwrap().to_string(), v["a"].as_array().unwrap().iter().map(|e| (e[0].as_str().unwrap().to_string(), parse(&e[1]))).collect())
    }
}
type Prof = Vec<BTreeMap<String, BTreeMap<String, f64>>>;
fn named(s: &cfr::Strategies<String, String>) -> Prof {
    s.as_named().into_iter().map(|it| it.map(|(i, a)| (i.clone(), a.map(|(x, p)| (x.clone(), p)).collect())).collect()).collect()
}
fn diff(a: &Prof, b: &Prof) -> f64 {
    let mut d = 0.0f64;
    for (pa, pb) in a.iter().zip(b) {
        for (i, ma) in pa {
            let mb = &pb[i];
            for k in ma.keys().chain(mb.keys()) {
                d = d.max((ma.get(k).unwrap_or(&0.0) - mb.get(k).unwrap_or(&0.0)).abs());
            }
        }
    }
    d
}
/// `realprobe --batch FILE [reps]`: FILE holds JSON lines {"idx", "ill", "case"} (harness
/// `dumpcases`); every case is solved with 1 and with K REAL rayon threads `reps` times.
fn batch(path: &str, reps: usize) {
    let text = std::fs::read_to_string(path).unwrap();
    let (mut total, mut well, mut div_well, mut div_ill, mut panics, mut errs) = (0, 0, 0, 0, 0, 0);
    let mut first: Vec<String> = vec![];
    for line in text.lines().filter(|l| !l.trim().is_empty()) {
        let doc: Value = serde_json::from_str(line).unwrap();
        let c = &doc["case"];
        let ill = !doc["ill"].is_null();
        let game = match Game::from_root(parse(&c["game"])) {
            Ok(g) => g,
            Err(_) => continue,
        };
        total += 1;
        if !ill {
            well += 1;
        }
        let params = params_of(c);
        let t: u64 = c["t"].as_str().unwrap().parse().unwrap();
        let k: usize = c["k"].as_str().unwrap().parse().unwrap();
        let thresh = jf(&c["thresh"]);
        let mut maxd = 0.0f64;
        let mut bad = false;
        for _ in 0..reps {
            let r = std::panic::catch_unwind(std::panic::AssertUnwindSafe(|| {
                let one = game.solve(SolveMethod::Full, t, thresh, 1, params);
                let many = game.solve(SolveMethod::Full, t, thresh, k, params);
                match (one, many) {
                    (Ok((a, ba)), Ok((b, bb))) => {
                        let mut d = diff(&named(&a), &named(&b));
                        // bounds relative to the payoff range are compared by the harness; here a gross check
                        let (x, y) = (ba.regret_bound(), bb.regret_bound());
                        if x.is_finite() != y.is_finite() || (x.is_finite() && (x - y).abs() > 1e-6 * x.abs().max(y.abs()).max(1e-300)) {
                            d = d.max(1.0);
                        }
                        Ok(d)
                    }
                    (Err(_), Err(_)) => Ok(0.0),
                    _ => Err(()),
                }
            }));
            match r {
                Err(_) => {
                    panics += 1;
                    bad = true;
                }
                Ok(Err(_)) => {
                    errs += 1;
                    bad = true;
                }
                Ok(Ok(d)) => maxd = maxd.max(d),
            }
        }
        if maxd > 1e-7 || bad {
            if ill {
                div_ill += 1;
            } else {
                div_well += 1;
                if first.len() < 10 {
                    first.push(format!("idx={} k={} t={} diff={:.3e}", doc["idx"], k, t, maxd));
                }
            }
        }
    }
    println!("BATCH cases={total} well_conditioned={well} diverging_well_conditioned={div_well} diverging_ill_conditioned={div_ill} panics={panics} error_kind_mismatches={errs} reps={reps}");
    for f in first {
        println!("  {f}");
    }
}

fn params_of(c: &Value) -> Option<RegretParams> {
    match &c["params"] {
        Value::String(s) => match s.as_str() {
            "default" => None,
            "vanilla" => Some(RegretParams::vanilla()),
            "lcfr" => Some(RegretParams::lcfr()),
            "cfr_plus" => Some(RegretParams::cfr_plus()),
            "dcfr" => Some(RegretParams::dcfr()),
            _ => Some(RegretParams::dcfr_prune()),
        },
        o => {
            let a = o["new"].as_array().unwrap();
            Some(RegretParams::new(jf(&a[0]), jf(&a[1]), jf(&a[2]), jf(&a[3])))
        }
    }
}

fn main() {
    let args: Vec<String> = std::env::args().collect();
    if args.get(1).map(|s| s.as_str()) == Some("--batch") {
        std::panic::set_hook(Box::new(|_| {}));
        batch(&args[2], args.get(3).and_then(|s| s.parse().ok()).unwrap_or(3));
        return;
    }
    let doc: Value = serde_json::from_str(&std::fs::read_to_string(&args[1]).unwrap()).unwrap();
    let reps: usize = args.get(2).and_then(|s| s.parse().ok()).unwrap_or(20);
    let c = &doc["case"];
    let game = Game::from_root(parse(&c["game"])).expect("game rejected by the real build");
    let method = match c["method"].as_str().unwrap() {
        "full" => SolveMethod::Full,
        "sampled" => SolveMethod::Sampled,
        _ => SolveMethod::External,
    };
    let params = match &c["params"] {
        Value::String(s) => match s.as_str() {
            "default" => None,
            "vanilla" => Some(RegretParams::vanilla()),
            "lcfr" => Some(RegretParams::lcfr()),
            "cfr_plus" => Some(RegretParams::cfr_plus()),
            "dcfr" => Some(RegretParams::dcfr()),
            _ => Some(RegretParams::dcfr_prune()),
        },
        o => {
            let a = o["new"].as_array().unwrap();
            Some(RegretParams::new(jf(&a[0]), jf(&a[1]), jf(&a[2]), jf(&a[3])))
        }
    };
    let t: u64 = c["t"].as_str().unwrap().parse().unwrap();
    let k: usize = c["k"].as_str().unwrap().parse().unwrap();
    let thresh = jf(&c["thresh"]);
    println!("real build: method={:?} t={} k={} thresh={} reps={}", method, t, k, thresh, reps);
    let (mut panics, mut maxd, mut errs) = (0, 0.0f64, 0);
    for _ in 0..reps {
        let r = std::panic::catch_unwind(std::panic::AssertUnwindSafe(|| {
            let one = game.solve(method, t, thresh, 1, params);
            let many = game.solve(method, t, thresh, k, params);
            match (one, many) {
                (Ok((a, ba)), Ok((b, bb))) => {
                    for (label, s) in [("1 thread", &a), ("K threads", &b)] {
                        for (p, pl) in named(s).iter().enumerate() {
                            for (i, m) in pl {
                                let tot: f64 = m.values().sum();
                                if m.is_empty() || !((tot - 1.0).abs() < 1e-9) {
                                    println!("MALFORMED ({label}): player {} infoset {i:?} -> {m:?}", p + 1);
                                }
                            }
                        }
                    }
                    Ok((diff(&named(&a), &named(&b)), ba.regret_bound(), bb.regret_bound(), b.get_info().regret()))
                }
                (a, b) => Err(format!("{:?} / {:?}", a.err(), b.err())),
            }
        }));
        match r {
            Err(_) => panics += 1,
            Ok(Err(e)) => {
                errs += 1;
                println!("error kinds: {e}");
            }
            Ok(Ok((d, b1, bk, rk))) => {
                if d > maxd {
                    println!("strategy diff K vs 1 = {d:.3e}; bound 1 thread {b1:.6e}, K threads {bk:.6e}; true regret K threads {rk:.6e}");
                }
                maxd = maxd.max(d);
            }
        }
    }
    println!("SUMMARY panics={panics} errors={errs} max_strategy_diff={maxd:.3e}");
}
