#!/bin/sh
# tools/run_mutants.sh [mutant names...]   (default: all of /verif/mutants/*.diff)
# For every mutant: does it compile and pass the repository's own test suite (guard off)?
# which checks (quick tier, budget divided by VERIF_RUNS_DIV, default 4) report a violation?
# Output: one line per mutant in $OUT (default /tmp/mutants.tsv):
#   name <tab> tests=pass|fail <tab> caught=<ids> <tab> missed-expected=<ids>
set -u
HERE="$(cd "$(dirname "$0")/.." && pwd)"
OUT="${OUT:-/tmp/mutants.tsv}"
DIV="${VERIF_RUNS_DIV:-4}"
IDS="${IDS:-C02 C03 C04 C05 C06 C07 C08 C09 C10 C15 C16 C17}"
if [ $# -gt 0 ]; then NAMES="$*"; else NAMES=$(ls "$HERE/mutants"/*.diff | xargs -n1 basename | sed 's/\.diff$//'); fi
S=$(mktemp -d /tmp/mutrun.XXXXXX)
trap 'git -C /repo worktree remove --force "$S/repo" >/dev/null 2>&1; rm -rf "$S"' EXIT
git -C /repo worktree add --detach "$S/repo" HEAD >/dev/null 2>&1 || exit 2
mkdir -p "$S/verif"
rsync -a --exclude target --exclude repo "$HERE/sim/" "$S/verif/sim/"
ln -s "$S/repo" "$S/verif/sim/repo"
cp -r "$HERE/sim/target" "$S/verif/sim/target" 2>/dev/null
cp "$HERE/KNOWN_FINDINGS.txt" "$S/verif/"
: > "$OUT"
for name in $NAMES; do
  git -C "$S/repo" checkout -q -- . 
  if ! git -C "$S/repo" apply "$HERE/mutants/$name.diff" 2>/dev/null; then echo "$name	patch-does-not-apply" >> "$OUT"; continue; fi
  if (cd "$S/repo" && CARGO_TARGET_DIR="$S/repo-target" cargo test --offline -q >"$S/test.log" 2>&1); then tests=pass; else tests=fail; fi
  if ! (cd "$S/verif/sim" && CARGO_NET_OFFLINE=true cargo build --release --offline -q 2>"$S/build.log"); then echo "$name	tests=$tests	sim-build-failed" >> "$OUT"; continue; fi
  caught=""
  for id in $IDS; do
    (cd "$S/verif" && VERIF_DIR="$S/verif" VERIF_RUNS_DIV=$DIV "$S/verif/sim/target/release/check" $id --tier quick >"$S/$id.log" 2>/dev/null)
    code=$?
    if [ $code -eq 1 ]; then caught="$caught $id"; elif [ $code -ne 0 ]; then caught="$caught $id(exit$code)"; fi
  done
  exp=$(python3 -c "import json;print(' '.join(json.load(open('$HERE/mutants/EXPECT.json')).get('$name',[])))")
  missed=""
  for e in $exp; do case " $caught " in *" $e "*) ;; *) missed="$missed $e";; esac; done
  echo "$name	tests=$tests	caught=$caught	missed-expected=$missed" >> "$OUT"
  echo "$name	tests=$tests	caught=$caught	missed-expected=$missed"
done
