#!/usr/bin/env python3
"""tools/matrix.py — rewrites the generated part of DESIGN.md section 13 (between the markers
<!-- MATRIX:BEGIN --> and <!-- MATRIX:END -->) from seeded/*/meta.json and mutants/RESULTS.tsv."""
import glob, json, os, re

HERE = os.path.dirname(os.path.dirname(os.path.abspath(__file__)))
IDS = ["C02", "C03", "C04", "C05", "C06", "C07", "C08", "C09", "C10", "C15", "C16", "C17"]


def row(name, target, caught, note="", ran=None):
    cells = " ".join((("**" + c[1:] + "**" if c == target else c[1:]) if c in caught else ("·" if ran is None or c in ran else "–")) for c in IDS)
    return f"| {name} | {target} | {cells} | {note} |"


out = []
metas = []
for f in sorted(glob.glob(os.path.join(HERE, "seeded", "*", "meta.json"))):
    metas.append(json.load(open(f)))
out.append(f"### 13.2 Independently seeded changes ({len(metas)} kept)\n")
out.append("Columns: the checks that reported a violation against the patched tree at the quick tier")
out.append("(numbers = check ids without the C; bold = the check of the property the change was written")
out.append("against; · = silent; – = not run for this change: the last changes of round 4 and those of rounds 5, 6 and 7 were evaluated")
out.append("against their own check and the most sensitive neighbours only, for lack of machine time).\n")
out.append("| change | breaks | caught by (" + " ".join(i[1:] for i in IDS) + ") | needs |")
out.append("|---|---|---|---|")
missed = []
own_missed = []
for m in metas:
    caught = set(m["caught_by"])
    if not caught:
        missed.append(m["id"])
    if m["breaks_property"] not in caught:
        own_missed.append(m["id"])
    out.append(row(m["id"], m["breaks_property"], caught, m["needs_to_manifest"].replace("|", "/")[:160], set(m.get("checks_evaluated") or IDS)))
out.append("")
out.append(f"Caught by at least one check: {len(metas) - len(missed)} of {len(metas)}" + (f"; missed by all: {', '.join(missed)}" if missed else "; none is missed by all") + ".")
out.append(f"Caught by the check of the property it was written against: {len(metas) - len(own_missed)} of {len(metas)}" + (f" (not by its own check: {', '.join(own_missed)} — see the notes below)" if own_missed else "") + ".\n")
hist = [(m["id"], m["history"]) for m in metas if m.get("history")]
if hist:
    out.append("History of the changes that were first missed or needed work on the machinery:\n")
    for i, h in hist:
        out.append(f"* `{i}`: {h}")
    out.append("")

tsv = os.path.join(HERE, "mutants", "RESULTS.tsv")
if os.path.exists(tsv):
    rows = [l.rstrip("\n").split("\t") for l in open(tsv) if l.strip()]
    out.append(f"### 13.1 Hand-made mutants ({len(rows)}; `mutants/*.diff`, budget = quick tier / 4)\n")
    out.append("| mutant | repository's own tests | caught by (" + " ".join(i[1:] for i in IDS) + ") | expected but silent |")
    out.append("|---|---|---|---|")
    for r in rows:
        name = r[0]
        tests = r[1].replace("tests=", "") if len(r) > 1 else "?"
        caught = set(re.findall(r"C\d+", r[2])) if len(r) > 2 else set()
        miss = r[3].replace("missed-expected=", "").strip() if len(r) > 3 else ""
        cells = " ".join(c[1:] if c in caught else "·" for c in IDS)
        out.append(f"| {name} | {tests} | {cells} | {miss or ''} |")
    out.append("")

p = os.path.join(HERE, "DESIGN.md")
s = open(p).read()
b, e = "<!-- MATRIX:BEGIN -->", "<!-- MATRIX:END -->"
gen = b + "\n" + "\n".join(out) + "\n" + e
if b in s:
    s = s[: s.index(b)] + gen + s[s.index(e) + len(e):]
else:
    s += "\n" + gen + "\n"
open(p, "w").write(s)
print("matrix written:", len(metas), "seeded changes")
