#!/bin/sh
# Determinism self-test (DESIGN 8.1): the per-run event-log hashes (scheduler decisions, seam
# events, result bit patterns, verdict) of the first N runs of every check must be identical
# across processes and across harness worker counts. Exit 0 = identical, 2 = divergence.
# usage: tools/selftest-determinism.sh [N] [IDs...]
N="${1:-2000}"; [ $# -gt 0 ] && shift
IDS="${*:-C02 C03 C04 C05 C06 C07 C08 C09 C10 C15 C16 C17}"
DIR="$(cd "$(dirname "$0")/.." && pwd)"
BIN="$DIR/sim/target/release/check"
T=$(mktemp -d /tmp/selftest.XXXXXX)
trap 'rm -rf "$T"' EXIT
rc=0
for id in $IDS; do
  n=$N
  case $id in C04) n=$((N/10));; C15|C16) n=$((N/2));; C17) n=$((N/5));; esac
  VERIF_JOBS=16 "$BIN" $id --hashes $n 2>/dev/null | sort > "$T/$id.a"
  VERIF_JOBS=1  "$BIN" $id --hashes $n 2>/dev/null | sort > "$T/$id.b"
  VERIF_JOBS=4  "$BIN" $id --hashes $n 2>/dev/null | sort > "$T/$id.c"
  if cmp -s "$T/$id.a" "$T/$id.b" && cmp -s "$T/$id.a" "$T/$id.c"; then
    echo "$id deterministic over $(wc -l < "$T/$id.a") runs x 3 processes (jobs 16 / 1 / 4)"
  else
    echo "$id NONDETERMINISTIC: $(diff "$T/$id.a" "$T/$id.b" | head -3) $(diff "$T/$id.a" "$T/$id.c" | head -3)"
    rc=2
  fi
done
exit $rc
