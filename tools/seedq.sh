#!/bin/sh
# tools/seedq.sh <dir> <i> [IDs...] — run tools/seedeval.sh in one of 3 slots (simple semaphore)
HERE="$(cd "$(dirname "$0")" && pwd)"
while :; do
  for s in 1 2 3; do
    exec 9>/tmp/seedq.slot$s
    if flock -n 9; then "$HERE/seedeval.sh" "$@"; exit $?; fi
    exec 9>&-
  done
  sleep 5
done
