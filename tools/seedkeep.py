#!/usr/bin/env python3
"""tools/seedkeep.py <out-dir> <i> <seed-id> <property> <needs...>
Keeps a confirmed seeded change as /verif/seeded/<seed-id>/ (patch.diff, demo.rs, notes.md,
meta.json). meta.json is built from <out-dir>/eval<i>.txt (written by tools/seedeval.sh):
the independent confirmation (demo passes on the pristine tree / suite passes with the patch /
demo fails with the patch) and which checks reported a violation against the patched tree.
A change is kept only if that confirmation is pass / pass / fail."""
import json, os, re, shutil, sys

out, i, sid, prop = sys.argv[1], sys.argv[2], sys.argv[3], sys.argv[4]
needs = " ".join(sys.argv[5:])
ev = open(os.path.join(out, f"eval{i}.txt")).read()
m = re.search(r"pristine-demo=(\w+) suite=(\w+) patched-demo=(\w+)", ev)
if not m or m.groups() != ("pass", "pass", "fail"):
    sys.exit(f"{sid}: not confirmed ({m.groups() if m else 'no verify line'})")
caught, detail, ran = [], {}, []
for line in ev.splitlines():
    mm = re.match(r"(C\d+) exit=(\d+) ?(.*)", line)
    if mm:
        cid, code, rest = mm.group(1), int(mm.group(2)), mm.group(3)
        ran.append(cid)
        if code == 1:
            caught.append(cid)
            cls = re.search(r"class=(.*?) sig=", rest)
            detail[cid] = cls.group(1) if cls else rest[:80]
        elif code != 0:
            detail[cid] = f"harness exit {code}"
dst = os.path.join("/verif/seeded", sid)
os.makedirs(dst, exist_ok=True)
shutil.copy(os.path.join(out, f"patch{i}.diff"), os.path.join(dst, "patch.diff"))
shutil.copy(os.path.join(out, f"demo{i}.rs"), os.path.join(dst, "demo.rs"))
n = os.path.join(out, f"notes{i}.md")
if os.path.exists(n):
    shutil.copy(n, os.path.join(dst, "notes.md"))
meta = {
    "id": sid,
    "breaks_property": prop,
    "needs_to_manifest": needs,
    "origin": "written by a sub-agent that saw only the property text and a scratch worktree of /repo",
    "confirmed": {
        "how": "tools/seedverify.sh in a fresh scratch worktree of /repo HEAD: demo as tests/demo.rs, `cargo test --offline --test demo` on the pristine tree, `cargo test --offline` with the patch, demo again with the patch",
        "pristine_demo": "pass", "suite_with_patch": "pass", "patched_demo": "fail",
    },
    "checks_run": "tools/mutcheck.sh: the simulator rebuilt against a scratch worktree with the patch applied, every registered check at the quick tier",
    "checks_at_commit": __import__("subprocess").run(["git", "-C", "/verif", "rev-parse", "--short", "HEAD"], capture_output=True, text=True).stdout.strip(),
    "checks_evaluated": ran,
    "caught_by": caught,
    "violation_classes": detail,
}
if os.environ.get("SEED_HISTORY"):
    meta["history"] = os.environ["SEED_HISTORY"]
json.dump(meta, open(os.path.join(dst, "meta.json"), "w"), indent=1)
print(sid, "kept; caught by", caught or "NOTHING")
