#!/bin/sh
# tools/seedeval.sh <dir> <i> [IDs...]   — dir holds patch<i>.diff and demo<i>.rs
# 1. tools/seedverify.sh (own worktree per call so several can run side by side)
# 2. tools/mutcheck.sh with the given checks (default: all twelve), quick tier
# Result in <dir>/eval<i>.txt
D="$(readlink -f "$1")"; I="$2"; shift 2
IDS="${*:-C02 C03 C04 C05 C06 C07 C08 C09 C10 C15 C16 C17}"
HERE="$(cd "$(dirname "$0")" && pwd)"
W=$(mktemp -d /tmp/seedverify.XXXXXX)
{
  echo "== verify"
  SEEDVERIFY_DIR="$W" "$HERE/seedverify.sh" "$D/patch$I.diff" "$D/demo$I.rs"
  git -C /repo worktree remove --force "$W/repo" >/dev/null 2>&1; rm -rf "$W"
  echo "== checks"
  "$HERE/mutcheck.sh" "$D/patch$I.diff" $IDS
} > "$D/eval$I.txt" 2>&1
