#!/bin/sh
# tools/seedverify.sh <patch.diff> <demo.rs>
# Confirms a seeded change (DESIGN 8.4) independently of whoever wrote it, in a scratch worktree
# of /repo's HEAD (outside /repo and /verif):
#   1. the demonstration passes on the pristine tree
#   2. with the patch applied the crate still builds and its whole test suite passes (guard off)
#   3. with the patch applied the demonstration fails
# Prints "pristine-demo=pass|fail suite=pass|fail patched-demo=pass|fail"; exit 0 iff pass/pass/fail.
# The worktree (default /tmp/seedverify) is reused between calls to keep its build cache; remove it
# with:  git -C /repo worktree remove --force /tmp/seedverify/repo; rm -rf /tmp/seedverify
set -u
PATCH="$(readlink -f "$1")"; DEMO="$(readlink -f "$2")"
W="${SEEDVERIFY_DIR:-/tmp/seedverify}"
mkdir -p "$W"
if [ ! -d "$W/repo/.git" ] && [ ! -f "$W/repo/.git" ]; then
  git -C /repo worktree add --detach "$W/repo" HEAD >/dev/null 2>&1 || { echo "cannot create worktree"; exit 2; }
fi
cd "$W/repo" || exit 2
git checkout -q --detach "$(git -C /repo rev-parse HEAD)" 2>/dev/null
git checkout -q -- . ; rm -f tests/demo.rs
mkdir -p tests; cp "$DEMO" tests/demo.rs
if cargo test --offline --test demo >"$W/pristine-demo.log" 2>&1; then a=pass; else a=fail; fi
git apply "$PATCH" || { echo "patch does not apply"; rm -f tests/demo.rs; exit 2; }
rm -f tests/demo.rs
if cargo test --offline >"$W/suite.log" 2>&1; then b=pass; else b=fail; fi
cp "$DEMO" tests/demo.rs
if cargo test --offline --test demo >"$W/patched-demo.log" 2>&1; then c=pass; else c=fail; fi
rm -f tests/demo.rs; rmdir tests 2>/dev/null; git checkout -q -- .
echo "pristine-demo=$a suite=$b patched-demo=$c"
[ "$a" = pass ] && [ "$b" = pass ] && [ "$c" = fail ]
