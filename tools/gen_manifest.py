#!/usr/bin/env python3
"""Writes /verif/MANIFEST.json (kept in a script so that it stays consistent)."""
import json, subprocess, os
HERE = os.path.dirname(os.path.dirname(os.path.abspath(__file__)))

def hooks_commits():
    out = subprocess.run(["git", "-C", "/repo", "log", "--format=%h %s"], capture_output=True, text=True).stdout
    return [l.split()[0] for l in out.splitlines() if l.split(" ", 1)[1].startswith("verif hook")][::-1]

CHECKS = {
 "C02": dict(level="exploration", technique="deterministic simulation: seeded schedule search over 1..16 simulated threads; returned bound vs independently evaluated true regret",
   text="Every run solves a generated game (payoff magnitudes 1e-30..1e30, chance weights of any positive finite magnitude, chance outcomes down to 1e-18) with the unsampled method and vanilla parameters for one (T, threshold, K) inside one simulated execution (seeded scheduler, rayon stand-in) and compares the returned bound with the true regret of the returned profile computed by an independent best-response evaluator (own tree type; cross-checked against brute force over pure strategies on small games). The oracle is tight: observed regret/bound reaches 0.98, so a rescaling of the bound by <= 0.95, a dropped factor 2, or any lost / duplicated subtree under K > 1 is refuted within a quick batch.",
   note="Trusted: the independent evaluator (self-checked per run where affordable), the rayon stand-in, 1e-9*D tolerance.", ref="6 C02"),
 "C03": dict(level="exploration", technique="deterministic simulation: seeded schedule search over simulated thread counts; CFR-rate envelopes evaluated by an independent evaluator",
   text="Per run: one generated game (adversarial shape classes included) x preset x budget 2^0..2^12 x K (1..16 simulated threads up to T = 256) in one simulated execution; per-player bounds (vanilla) and the independently evaluated true regret (all presets) must lie inside the envelopes stated by the property. The game x budget sweep is plain seeded generation; the simulator contributes the thread-count / schedule dimension. A correct tree sits 3-25x inside the envelopes, so this check refutes gross convergence failures, not constant-factor errors (those are C02 / C08).",
   note="Trusted: evaluator, stand-in; envelopes taken from the property as given.", ref="6 C03"),
 "C04": dict(level="exploration", technique="deterministic simulation: seeded, replayable sampling histories (keyed RNG seam) x simulated threads; envelope per game + population statistics",
   text="Per run: one generated game x (Sampled|External, preset) x one seeded sampling history, solved at T = 100, 400, 1600, 3200 (K simulated threads up to 400 iterations). Oracle A: true regret (independent evaluator) <= D*N*sqrt(A)/sqrt(T) at every checkpoint. Oracle B, per (method, preset) over the >= 150 games of the batch: median regret/D at 3200 < 1% and mean at 3200 < half the mean at 100. The claim is probabilistic; draws are pinned per VERIF_SEED and the observed maximum regret/envelope ratio is reported in evidence on every run.",
   note="Trusted: evaluator; a different VERIF_SEED is a different sample (margin measured: max regret/envelope 0.12-0.2).", ref="6 C04"),
 "C08": dict(level="exploration", technique="deterministic simulation: refinement against an executable reference model under pinned sampling histories (keyed RNG seam), 1..3 simulated threads",
   text="Per run the library solves (method x parameter tuple: presets, None, RegretParams::new over {0, +-inf, +-0.5, +-1.5, 2, +-1e3} and log-uniform exponents in +-[0.1, 1000] x T 0..50 x K 1..3) with its draws pinned and logged; an independent reference implementation of the documented algorithm (simultaneous-update DCFR, chance sampling, alternating external sampling; documented discount / averaging / regret-matching semantics; presets as documented tuples; None = documented default) computes the same iterates from the same keys. The complete draw log (site, pass, weights presented, index) and the returned strategies must agree (1e-7) on well-conditioned runs.",
   note="Trusted: the reference model (independent in code, not authorship); undocumented tie-breaking is learned from the build; near ties / near-zero regrets are skipped (counted in evidence); the reference is computed in two legal orders of operations and a run on which they disagree is skipped as summation-order-sensitive.", ref="6 C08"),
 "C09": dict(level="exploration", technique="deterministic simulation: prefix-history refinement under pinned sampling histories; thresholds placed around every bound of the history; K = 1 bit-exact, K > 1 under seeded schedules",
   text="Per run, inside one simulated execution: prefix solves with budgets 0..N give the bound history; solves with thresholds -1, 0, NaN, +inf and thresholds just below / at / just above bounds of the history must return exactly (bit for bit at one thread) the prefix run with budget t* = first iteration whose total bound is < r. Every threshold that is reached within N iterations is also run with budget u64::MAX (unlimited) and N+1e9 and must give the same prefix. Catches <= vs <, off-by-one stops, testing one player only, NaN / negative / infinite thresholds mishandled, exceeding the budget, an unlimited budget that is not.",
   note="Trusted: keyed RNG makes a budget-t run a prefix of a budget-N run; K > 1 comparisons use C06 tolerances.", ref="6 C09"),
 "C10": dict(level="exploration", technique="deterministic simulation: observed sampling sites under a keyed / scripted RNG seam (input channel), reference draw log, Hoeffding-band frequencies",
   text="Observer runs: every sampling site of a solve is observed (hooks H3/H4): Full draws nothing, Sampled draws no player actions, one draw per (site, pass), chance weights presented = declared weights normalised, each player draw = inverse CDF of the presented weights at the keyed variate, whole draw log = documented algorithm's. Scripted runs: the private categorical sampler (H7) on a scripted RngCore over weight vectors of length 1..8 and variates incl. every cumulative boundary +-2 ulp. Frequency runs: 1e5 keyed draws through the real chance / opponent sampling code, Hoeffding band with failure probability 1e-12.",
   note="Trusted: SplitMix64 as uniform source; boundary cases within a few ulp accept either neighbour.", ref="6 C10"),
 "C15": dict(level="exploration", technique="deterministic simulation: the real main() inside a simulated execution (one process per run), seeded schedules and sampling histories; output judged by an independent evaluator",
   text="Each run starts one `simcli` process: the repository's unmodified main() (argument parsing, input routing, parsers, solve, clip, JSON output) inside one simulated execution with the rayon stand-in, a seeded scheduler, keyed sampling and core-count override. Inputs are generated valid games written by the harness's own JSON-DSL / Gambit writers using the formats' freedom (constant sums != 0, interior payoffs incl. non-zero-sum ones, outcomes shared and referred to by number only before or after their definition, unnamed infosets, names given at the first node only, chance infosets numbered from 0, rational / decimal probabilities, shuffled action lists, multi-byte names, misleading file extensions under an explicit --input-format, a pre-existing longer -o file). Oracle: the compact game built by the binary's own reader is structurally the file's game (tree, payoffs, names, probabilities and the partition of chance nodes into chance infosets); exit 0, exactly one result object, valid profiles over exactly the file's infosets and actions, every printed number = independent evaluation of the PRINTED strategies on the game as written (own payoffs; utilities add up to the constant), total regret = max.",
   note="Trusted: independent evaluator and writers; process start and the pipe/file carrying the input are outside the simulator (their content is decided by the driver, verdicts do not depend on timing).", ref="6 C15"),
 "C16": dict(level="exploration", technique="deterministic simulation with fault injection: real main() in a simulated execution vs in-process library under the same seeds; fault-injecting Read seam (chunking, EINTR, EIO, early EOF) on the binary's readers",
   text="Five kinds of run: (a) the printed strategies of one simcli process equal Game::solve run in-process for the documented meaning of -m, -d, -t (0 = unlimited, also with thresholds that need thousands of iterations), -r, -p (0 = core count; the stand-in reports the pool size the program asked for) under the same sampling seed - bit-exact at one thread; (b) the same bytes through two routes (file/stdin, extension incl. a misleading one under an explicit format, --input-format, -o incl. a pre-existing longer file) give the identical object; (c) the binary's own readers called in-process on a seeded fault-injecting Read (chunks down to 1 byte, Interrupted between chunks, multi-byte UTF-8 split across chunks, hard error, early EOF): same game or rejection, never a wrong game; (d) JSON and Gambit encodings of one game give one solution; (e) clip: printed profile = own truncation of the library result iff its independently evaluated regret is strictly lower, always a valid profile.",
   note="Trusted: as C15; numbers parsed back from JSON are compared up to one ulp; K > 1 comparisons use the C06 tolerance and conditioning guard.", ref="6 C16"),
 "C17": dict(level="fault_enumeration", technique="deterministic simulation with fault injection: enumerated stored-file faults (every truncation offset, known-invalid corruptions per format and per contract rule, byte flips, bad UTF-8, read error) against the real readers and the real main()",
   text="Fault kinds are enumerated round-robin over generated valid files: truncation at every byte offset and a hard I/O error after every byte offset (in-process through the format's reader and the auto reader, with EINTR and chunking) plus sampled offsets through the real process; empty/blank file; invalid UTF-8; real read error (directory); a pre-existing -o file that must stay untouched; 25 grammar-aware corruptions whose invalidity is known by construction (JSON field/type/prob faults, JSON all weights of a chance node negative, Gambit player count / constant sum far beyond and just beyond the documented tolerance / 1e400 / distribution / outcome / name clash, and every library contract rule in both encodings); byte flips with the weak invariant only. Strong oracle: exit != 0, empty stdout, no -o file, stderr names a documented category. Weak invariant: never a result and a failure; exit 0 implies one complete valid result object.",
   note="Trusted: the construction of each known-invalid corruption; documented categories = README anchors plus the two documented Gambit messages. Fault kinds and truncation offsets are enumerated; the files they are applied to are sampled.", ref="6 C17"),
 "C05": dict(level="exploration", technique="deterministic simulation with fault injection: seeded search over configurations x schedules with injected pool-build failures, core-count faults, oversubscription and starved workers; deadlock / step-budget / panic detection",
   text="Every run executes one seeded point of the full configuration product (methods, RegretParams::new tuples incl. +-inf, +-1e3 and log-uniform exponents in +-[0.1, 1000], presets, None, T incl. 0 and u64::MAX, thresholds incl. negative/NaN/inf, num_threads incl. 0 and the overflow boundary, payoff magnitudes 1e-300..1e250, chance weights scaled by 1e-300..8e307) inside one simulated execution. Injected faults: thread-pool construction failure, too many threads, unknown / overridden core count, starved worker (PCT schedule), fewer tasks than workers, stub coins. Oracle: no panic in any task, no deadlock, step budget respected, Ok / ThreadOverflow / ThreadSpawnError exactly where expected (1 thread never errors), well-formed profile and bounds on Ok, and after an injected failure the retried call succeeds and equals a fault-free run. Contract-edge trees (own action forgotten; one action here, several there) are fed to from_root as well. Fault kinds are enumerated; schedules and inputs are sampled.",
   note="Trusted: stand-in fails pool builds above 4096 threads as the real pool does in this sandbox; allocation failure not modelled; hang = step budget on decision-node visits + shuttle deadlock detector + a 180 s wall-clock watchdog for loops that reach neither (never a timing oracle).", ref="6 C05"),
 "C06": dict(level="exploration", technique="deterministic simulation: seeded schedule search (shuttle, own recording scheduler) over a rayon stand-in; K-thread vs 1-thread result",
   text="Seeded search over thread schedules: every run executes the real solver sources with 1 thread and with K simulated threads inside one simulated execution whose scheduler (uniform random / PCT priorities / non-preemptive, chosen per run) decides every interleaving at every mutex, atomic float update, spawn and join, and whose rayon stand-in draws worker count and item order from the same recorded stream. Strategies and bounds must agree within 1e-7 / 1e-9*D*(N+1) on well-conditioned cases. Sampling of schedules and games: evidence, not proof.",
   note="Trusted: the rayon stand-in's over-approximation of rayon's contract (DESIGN 2.2, cross-checked against the real pool in 8.3), shuttle's sequentially consistent model of atomics, the conditioning guard (DESIGN 5.3).", ref="6 C06"),
 "C07": dict(level="exploration", technique="deterministic simulation: seeded schedule search with sampling decisions pinned by a keyed RNG seam; K-thread vs 1-thread result plus draw-once / visit-multiset monitors",
   text="As C06 for the chance-sampled and external-sampled solvers: the draw at (kind, infoset, pass) is a pure function of the run's sampling seed (hooks H3/H4; the production samplers run unmodified on the keyed generator), so the 1-thread and K-thread executions are comparable. Checked per run: equal strategies/bounds, at most one draw per (infoset, pass), chance visits consistent within a pass, equal multiset of decision-node visits, no panic (try_lock collision), no deadlock, step budget.",
   note="Trusted: as C06, plus hooks H3/H4/H9 being observation-only apart from replacing the entropy source.", ref="6 C07"),
}

NA = {
 "C01": "pure single-threaded function of (game, profile): no schedule, draw, fault or I/O to simulate; deciding it is input generation against an oracle (property-based testing), not this technique. Reached indirectly: C15 recomputes every printed utility/regret independently.",
 "C11": "pure validation fold over an in-memory tree; no schedule, draw, fault or I/O. Its rules are exercised as stored-file corruptions by C17 and its purpose (never accept a tree on which solving is undefined) by C05/C07.",
 "C12": "metamorphic relation between pure evaluations / single-threaded solves of two presentations; nothing to schedule or inject. The JSON-vs-Gambit instance is part of C16 and is checked there.",
 "C13": "pure iterator contract of the named view; no schedule, draw, fault or I/O. Completeness of the named view is seen through C15.",
 "C14": "pure import functions over an in-memory collection; no schedule, draw, fault or I/O.",
 "C18": "pure function of (profile, threshold); its consequence for the binary (what is printed is a valid profile) is C16's clip clause.",
 "C19": "pure function of two profiles and p; no schedule, draw, fault or I/O.",
}

def main():
    checks = []
    for pid in sorted(CHECKS):
        c = CHECKS[pid]
        checks.append({
            "property_id": pid,
            "quick_cmd": f"./check {pid} --tier quick",
            "thorough_cmd": f"./check {pid} --tier thorough",
            "evidence_file": f"evidence/{pid}.json",
            "replay_cmd_template": "./check --replay {path}",
            "engine": "cfr-dst",
            "level_claimed": {"category": c["level"], "text": c["text"], "design_ref": "DESIGN.md section " + c["ref"]},
            "level_note": c["note"],
            "technique": c["technique"],
        })
    claimed = set(CHECKS)
    na = [{"property_id": k, "reason": v} for k, v in sorted(NA.items())]
    # properties with a planned check that is not built yet are listed as not claimed, with the reason
    for pid in ["C02","C03","C04","C05","C08","C09","C10","C15","C16","C17"]:
        if pid not in claimed:
            na.append({"property_id": pid, "reason": "check under construction in this session (DESIGN.md section 6); not claimed until it exists"})
    na.sort(key=lambda x: x["property_id"])
    m = {
        "version": 1,
        "setup_cmd": "cd /verif/sim && CARGO_NET_OFFLINE=true cargo build --release --offline",
        "hooks": {
            "guard": "--cfg cfr_verif",
            "enable": "RUSTFLAGS --cfg cfr_verif via /verif/sim/.cargo/config.toml; the shadow manifest /verif/sim/cfr-shadow/Cargo.toml compiles /repo/src/lib.rs (through the symlink /verif/sim/repo) against the simulator's stand-ins for rayon and portable-atomic; /repo/Cargo.toml dependencies are untouched",
            "baseline_off_cmd": "cd /repo && cargo test --workspace --no-fail-fast --offline",
            "source_commits": hooks_commits(),
            "add_only": True,
        },
        "engines": [{
            "name": "cfr-dst",
            "path": "sim/",
            "serves_properties": sorted(claimed),
            "kind_free_text": "deterministic simulator: real cfr sources (hooks on) + rayon / AtomicF64 / Mutex stand-ins on shuttle, own recording scheduler (random, PCT, replay), keyed sampling RNG, fault plan, generators, independent evaluator, reference CFR model, minimiser, replay files",
        }],
        "checks": checks,
        "not_applicable": na,
        "notes": "Exit codes of every command: 0 held, 1 VIOLATION line printed, 2 harness error. KNOWN_FINDINGS.txt lists recorded findings and fixed defects. VERIF_SEED (default 20260928) seeds everything; VERIF_JOBS sets harness parallelism (results do not depend on it).",
    }
    json.dump(m, open(os.path.join(HERE, "MANIFEST.json"), "w"), indent=1)
    print("wrote MANIFEST.json with", len(checks), "checks")

main()
