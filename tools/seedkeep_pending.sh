#!/bin/sh
# tools/seedkeep_pending.sh — for every seed in seeded/INDEX.json that has a finished evaluation
# under /tmp/seed/<src>/eval<i>.txt (tools/seedq.sh) but no seeded/<id>/ yet: keep it.
HERE="$(cd "$(dirname "$0")/.." && pwd)"
python3 - "$HERE" <<'PY'
import json, os, subprocess, sys, shutil
here = sys.argv[1]
idx = json.load(open(here + "/seeded/INDEX.json"))
for sid, e in idx.items():
    dst = f"{here}/seeded/{sid}"
    src = f"/tmp/seed/{e['src']}"
    ev = f"{src}/eval{e['i']}.txt"
    if os.path.exists(dst + "/meta.json") or not os.path.exists(ev):
        continue
    txt = open(ev).read()
    if "== checks" not in txt or txt.count("exit=") < 3 or not txt.rstrip().splitlines()[-1].startswith("    "):
        continue
    env = dict(os.environ, SEED_HISTORY=e.get("history", ""))
    r = subprocess.run(["python3", here + "/tools/seedkeep.py", src, str(e["i"]), sid, e["property"], e["needs"]], env=env, capture_output=True, text=True)
    print(r.stdout.strip() or r.stderr.strip())
    if os.path.isdir(dst):
        shutil.copy(ev, dst + "/eval.txt")
        o = f"{src}/patch{e['i']}.orig.diff"
        if os.path.exists(o):
            shutil.copy(o, dst + "/patch.orig.diff")
PY
