//! Deterministic-simulation harness for erikbrinkman/cfr (see /verif/DESIGN.md).
pub mod common;
pub mod cond;
pub mod driver;
pub mod eval;
pub mod gen;
pub mod model;
pub mod props;
pub mod refmodel;
pub mod rng;
pub mod sched;
pub mod shrink;
pub mod solve;
