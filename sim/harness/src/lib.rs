//! Deterministic-simulation harness for erikbrinkman/cfr (see /verif/DESIGN.md).
pub mod common;
pub mod cond;
pub mod driver;
pub mod eval;
pub mod gen;
pub mod model;
pub mod props;
pub mod refmodel;
pub mod rng;
pub mod sched;
pub mod shrink;
pub mod solve;
pub mod cli;

/// the repository's binary sources (src/main.rs with its modules auto / gambit / json),
/// compiled unmodified into the harness through the symlink sim/repo (hook H8 exposes entry points)
#[allow(dead_code)]
#[path = "../../repo/src/main.rs"]
pub mod real_main;
