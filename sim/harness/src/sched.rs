//! The simulator's scheduler: seeded policies (uniform random, PCT-style priorities),
//! exact replay of a recorded decision list, and the wrapper that runs one closure as one
//! simulated execution and returns its result, trace and failure (if any).
use crate::rng::{Fnv, Rng};
use serde_json::{json, Value};
use shuttle::scheduler::{Schedule, Scheduler, Task, TaskId};
use std::sync::{Arc, Mutex};

#[derive(Clone, Debug, PartialEq)]
pub enum Policy {
    /// uniform choice among runnable tasks at every scheduling point
    Random,
    /// PCT-style: random task priorities, `changes` priority drops at random steps
    /// within the first `horizon` steps; the lowest-priority task starves ("slow worker")
    Pct { changes: usize, horizon: u64 },
    /// keep running the current task while it is runnable, else lowest id; random values are 0
    NoPreempt,
    /// follow a recorded trace exactly
    Replay,
}

/// run-length encoded task choices + the random values handed out
#[derive(Clone, Debug, Default, PartialEq)]
pub struct Trace {
    pub choices: Vec<(u32, u32)>,
    pub randoms: Vec<u64>,
}

impl Trace {
    fn push_choice(&mut self, t: u32) {
        match self.choices.last_mut() {
            Some((id, n)) if *id == t => *n += 1,
            _ => self.choices.push((t, 1)),
        }
    }
    pub fn len(&self) -> u64 {
        self.choices.iter().map(|(_, n)| *n as u64).sum()
    }
    pub fn hash(&self) -> u64 {
        let mut h = Fnv::default();
        for (t, n) in &self.choices {
            h.u64(((*t as u64) << 32) | *n as u64);
        }
        for r in &self.randoms {
            h.u64(*r);
        }
        h.finish()
    }
    pub fn to_json(&self) -> Value {
        json!({
            "choices_rle": self.choices.iter().map(|(t, n)| json!([t, n])).collect::<Vec<_>>(),
            "randoms": self.randoms.iter().map(|r| json!(r.to_string())).collect::<Vec<_>>(),
        })
    }
    pub fn from_json(v: &Value) -> Result<Trace, String> {
        let mut t = Trace::default();
        for e in v["choices_rle"].as_array().ok_or("choices_rle")? {
            t.choices.push((e[0].as_u64().ok_or("task")? as u32, e[1].as_u64().ok_or("count")? as u32));
        }
        for e in v["randoms"].as_array().ok_or("randoms")? {
            t.randoms.push(e.as_str().ok_or("random")?.parse::<u64>().map_err(|e| e.to_string())?);
        }
        Ok(t)
    }
}

#[derive(Clone, Debug, PartialEq)]
pub struct SchedSpec {
    pub policy: Policy,
    pub seed: u64,
    pub trace: Option<Trace>,
}

impl SchedSpec {
    pub fn random(seed: u64) -> Self {
        SchedSpec { policy: Policy::Random, seed, trace: None }
    }
    pub fn nopreempt() -> Self {
        SchedSpec { policy: Policy::NoPreempt, seed: 0, trace: None }
    }
    pub fn replay(t: Trace) -> Self {
        SchedSpec { policy: Policy::Replay, seed: 0, trace: Some(t) }
    }
    /// swarm choice of a policy for a run
    pub fn swarm(r: &mut Rng) -> Self {
        let seed = r.next();
        match r.below(10) {
            0..=5 => SchedSpec { policy: Policy::Random, seed, trace: None },
            6..=8 => {
                let changes = r.usize_in(0, 3);
                let horizon = 10u64.pow(r.usize_in(1, 5) as u32);
                SchedSpec { policy: Policy::Pct { changes, horizon }, seed, trace: None }
            }
            _ => SchedSpec { policy: Policy::NoPreempt, seed, trace: None },
        }
    }
    pub fn to_json(&self) -> Value {
        let pol = match &self.policy {
            Policy::Random => json!("random"),
            Policy::Pct { changes, horizon } => json!({"pct": {"changes": changes, "horizon": horizon}}),
            Policy::NoPreempt => json!("nopreempt"),
            Policy::Replay => json!("replay"),
        };
        json!({"policy": pol, "seed": self.seed.to_string(), "trace": self.trace.as_ref().map(|t| t.to_json())})
    }
    pub fn from_json(v: &Value) -> Result<SchedSpec, String> {
        let policy = match &v["policy"] {
            Value::String(s) if s == "random" => Policy::Random,
            Value::String(s) if s == "nopreempt" => Policy::NoPreempt,
            Value::String(s) if s == "replay" => Policy::Replay,
            o => {
                let p = &o["pct"];
                Policy::Pct {
                    changes: p["changes"].as_u64().ok_or("pct.changes")? as usize,
                    horizon: p["horizon"].as_u64().ok_or("pct.horizon")?,
                }
            }
        };
        let seed = v["seed"].as_str().ok_or("seed")?.parse::<u64>().map_err(|e| e.to_string())?;
        let trace = if v["trace"].is_null() { None } else { Some(Trace::from_json(&v["trace"])?) };
        Ok(SchedSpec { policy, seed, trace })
    }
}

#[derive(Debug, Default)]
pub struct SchedOut {
    pub trace: Trace,
    pub steps: u64,
    /// the task chosen differs from the running one although that one was runnable
    pub preemptions: u64,
    pub max_runnable: usize,
    pub max_task_id: usize,
    /// replay asked for a task that was not runnable / ran out of recorded decisions
    pub replay_diverged: bool,
}

struct Sched {
    spec: SchedSpec,
    rng: Rng,
    out: Arc<Mutex<SchedOut>>,
    started: bool,
    // pct
    prios: Vec<u64>,
    change_points: Vec<u64>,
    low: u64,
    // replay cursor
    cur: usize,
    cur_left: u32,
    rcur: usize,
}

impl Sched {
    fn new(spec: SchedSpec, out: Arc<Mutex<SchedOut>>) -> Self {
        let mut rng = Rng::new(spec.seed ^ 0x5C4ED);
        let mut change_points = vec![];
        if let Policy::Pct { changes, horizon } = &spec.policy {
            for _ in 0..*changes {
                change_points.push(rng.below(*horizon));
            }
        }
        Sched { spec, rng, out, started: false, prios: vec![], change_points, low: 0, cur: 0, cur_left: 0, rcur: 0 }
    }

    fn prio(&mut self, id: usize) -> u64 {
        while self.prios.len() <= id {
            // high random priorities; lowered ones are small and decreasing in time
            let p = (1u64 << 40) + self.rng.below(1u64 << 20);
            self.prios.push(p);
        }
        self.prios[id]
    }
}

impl Scheduler for Sched {
    fn new_execution(&mut self) -> Option<Schedule> {
        if self.started {
            None
        } else {
            self.started = true;
            Some(Schedule::new(self.spec.seed))
        }
    }

    fn next_task(&mut self, runnable: &[&Task], current: Option<TaskId>, _is_yielding: bool) -> Option<TaskId> {
        let ids: Vec<usize> = runnable.iter().map(|t| usize::from(t.id())).collect();
        let cur = current.map(usize::from);
        let cur_runnable = cur.map(|c| ids.contains(&c)).unwrap_or(false);
        let step = self.out.lock().unwrap().steps;
        let chosen: usize = match &self.spec.policy {
            Policy::Random => ids[self.rng.below(ids.len() as u64) as usize],
            Policy::NoPreempt => {
                if cur_runnable {
                    cur.unwrap()
                } else {
                    *ids.iter().min().unwrap()
                }
            }
            Policy::Pct { .. } => {
                if self.change_points.contains(&step) {
                    if let Some(c) = cur {
                        self.prio(c);
                        self.low += 1;
                        self.prios[c] = (1u64 << 30) - self.low;
                    }
                }
                let mut best = ids[0];
                let mut bp = 0;
                for id in &ids {
                    let p = self.prio(*id);
                    if p > bp {
                        bp = p;
                        best = *id;
                    }
                }
                best
            }
            Policy::Replay => {
                let tr = self.spec.trace.as_ref().expect("replay without trace");
                if self.cur_left == 0 {
                    if self.cur < tr.choices.len() {
                        self.cur_left = tr.choices[self.cur].1;
                        self.cur += 1;
                    }
                }
                let want = if self.cur_left > 0 {
                    self.cur_left -= 1;
                    Some(tr.choices[self.cur - 1].0 as usize)
                } else {
                    None
                };
                match want {
                    Some(w) if ids.contains(&w) => w,
                    _ => {
                        self.out.lock().unwrap().replay_diverged = true;
                        if cur_runnable {
                            cur.unwrap()
                        } else {
                            *ids.iter().min().unwrap()
                        }
                    }
                }
            }
        };
        let mut o = self.out.lock().unwrap();
        o.steps += 1;
        o.max_runnable = o.max_runnable.max(ids.len());
        o.max_task_id = o.max_task_id.max(chosen);
        if cur_runnable && cur != Some(chosen) {
            o.preemptions += 1;
        }
        o.trace.push_choice(chosen as u32);
        drop(o);
        runnable.iter().find(|t| usize::from(t.id()) == chosen).map(|t| t.id())
    }

    fn next_u64(&mut self) -> u64 {
        let v = match &self.spec.policy {
            Policy::NoPreempt => 0,
            Policy::Replay => {
                let tr = self.spec.trace.as_ref().expect("replay without trace");
                let v = tr.randoms.get(self.rcur).copied();
                self.rcur += 1;
                match v {
                    Some(v) => v,
                    None => {
                        self.out.lock().unwrap().replay_diverged = true;
                        0
                    }
                }
            }
            _ => self.rng.next(),
        };
        self.out.lock().unwrap().trace.randoms.push(v);
        v
    }
}

/// a scheduler for a stand-alone Runner (used by the `simcli` binary)
pub fn new_scheduler(spec: SchedSpec, out: Arc<Mutex<SchedOut>>) -> Box<dyn Scheduler + Send> {
    Box::new(Sched::new(spec, out))
}

#[derive(Debug)]
pub enum Failure {
    Panic(String),
    Deadlock(String),
    StepBudget(String),
}

impl Failure {
    pub fn class(&self) -> String {
        match self {
            Failure::Panic(m) => {
                let first = m.lines().next().unwrap_or("");
                let short: String = first.chars().take(80).collect();
                format!("panic:{short}")
            }
            Failure::Deadlock(_) => "deadlock".into(),
            Failure::StepBudget(m) if m.contains(WATCHDOG_MSG) => "hang-watchdog".into(),
            Failure::StepBudget(_) => "step-budget".into(),
        }
    }
    pub fn message(&self) -> &str {
        match self {
            Failure::Panic(m) | Failure::Deadlock(m) | Failure::StepBudget(m) => m,
        }
    }
}

pub struct SimResult<T> {
    pub value: Result<T, Failure>,
    pub sched: SchedOut,
}

pub fn install_quiet_panic_hook() {
    // panics of simulated executions are verdicts and stay quiet; a panic anywhere else is a
    // defect of the harness and says where
    std::panic::set_hook(Box::new(|info| {
        if std::thread::current().name() != Some("sim-executor") {
            eprintln!("harness panic (thread {:?}): {info}", std::thread::current().name());
        }
    }));
}

fn payload_msg(e: Box<dyn std::any::Any + Send>) -> String {
    if let Some(s) = e.downcast_ref::<String>() {
        s.clone()
    } else if let Some(s) = e.downcast_ref::<&str>() {
        s.to_string()
    } else {
        "<non-string panic payload>".into()
    }
}

pub fn stack_size() -> usize {
    std::env::var("VERIF_STACK_KB").ok().and_then(|s| s.parse::<usize>().ok()).unwrap_or(256) << 10
}

pub const MAX_SCHED_STEPS: usize = 20_000_000;

// ---------------------------------------------------------------------------------------
// Executor threads. shuttle keeps its pool of coroutine stacks per `Runner::run` call, so a
// fresh Runner per simulated execution would mmap/munmap every simulated thread's stack —
// and those system calls serialise all harness workers on the process's memory-map lock.
// Instead every harness worker owns one long-lived executor thread running ONE Runner whose
// scheduler blocks in `new_execution()` until the next job arrives. One job = one simulated
// execution = one scheduler instance, exactly as before; only the stacks are recycled.

type JobFn = Box<dyn FnOnce() + Send>;

struct Job {
    spec: SchedSpec,
    f: JobFn,
}

struct Done {
    out: SchedOut,
    failure: Option<String>,
}

struct ChanSched {
    jobs: Arc<Mutex<std::sync::mpsc::Receiver<Job>>>,
    done: std::sync::mpsc::Sender<Done>,
    slot: Arc<Mutex<Option<JobFn>>>,
    out: Arc<Mutex<SchedOut>>,
    inner: Option<Sched>,
    running: bool,
    cancel: Arc<std::sync::atomic::AtomicBool>,
}

impl Scheduler for ChanSched {
    fn new_execution(&mut self) -> Option<Schedule> {
        if self.running {
            // the previous job ran to completion
            self.running = false;
            let out = std::mem::take(&mut *self.out.lock().unwrap());
            let _ = self.done.send(Done { out, failure: None });
        }
        let job = self.jobs.lock().unwrap().recv().ok()?;
        *self.out.lock().unwrap() = SchedOut::default();
        let seed = job.spec.seed;
        self.inner = Some(Sched::new(job.spec, self.out.clone()));
        *self.slot.lock().unwrap() = Some(job.f);
        self.running = true;
        Some(Schedule::new(seed))
    }

    fn next_task(&mut self, runnable: &[&Task], current: Option<TaskId>, is_yielding: bool) -> Option<TaskId> {
        if self.cancel.load(std::sync::atomic::Ordering::Relaxed) {
            panic!("{}", cfr_verif_seam::CANCELLED_MSG);
        }
        self.inner.as_mut().expect("no job").next_task(runnable, current, is_yielding)
    }

    fn next_u64(&mut self) -> u64 {
        self.inner.as_mut().expect("no job").next_u64()
    }
}

fn executor_main(jobs: std::sync::mpsc::Receiver<Job>, done: std::sync::mpsc::Sender<Done>, cancel: Arc<std::sync::atomic::AtomicBool>) {
    cfr_verif_seam::set_cancel_flag(cancel.clone());
    let jobs = Arc::new(Mutex::new(jobs));
    loop {
        let slot: Arc<Mutex<Option<JobFn>>> = Arc::new(Mutex::new(None));
        let out = Arc::new(Mutex::new(SchedOut::default()));
        if cancel.load(std::sync::atomic::Ordering::Relaxed) {
            return; // abandoned by the watchdog: this executor is not used again
        }
        let sched = ChanSched { jobs: jobs.clone(), done: done.clone(), slot: slot.clone(), out: out.clone(), inner: None, running: false, cancel: cancel.clone() };
        let mut cfg = shuttle::Config::new();
        // every simulated thread of an execution keeps its stack until the execution ends, and
        // long runs spawn thousands of short-lived workers: keep stacks small (the recursion
        // depth of the solvers is the tree depth, <= ~15 frames)
        cfg.stack_size = stack_size();
        cfg.failure_persistence = shuttle::FailurePersistence::None;
        cfg.silence_warnings = true;
        cfg.max_steps = shuttle::MaxSteps::FailAfter(MAX_SCHED_STEPS);
        let runner = shuttle::Runner::new(sched, cfg);
        let r = std::panic::catch_unwind(std::panic::AssertUnwindSafe(move || {
            runner.run(move || {
                let f = slot.lock().unwrap().take().expect("executor: no job in slot");
                f();
            });
        }));
        match r {
            Ok(()) => return, // job channel closed
            Err(e) => {
                let o = std::mem::take(&mut *out.lock().unwrap());
                if done.send(Done { out: o, failure: Some(payload_msg(e)) }).is_err() {
                    return;
                }
            }
        }
    }
}

struct Executor {
    tx: std::sync::mpsc::Sender<Job>,
    rx: std::sync::mpsc::Receiver<Done>,
    cancel: Arc<std::sync::atomic::AtomicBool>,
}

thread_local! {
    static EXEC: std::cell::RefCell<Option<Executor>> = const { std::cell::RefCell::new(None) };
}

/// Watchdog for run-away loops that never reach a scheduling point or a hook (the step budget
/// cannot see those): a simulated execution that does not finish within this many wall-clock
/// seconds is reported as a hang and its executor thread is abandoned. Ordinary executions take
/// milliseconds to a few seconds, so the limit is not a timing oracle.
/// while a violation is being minimised every candidate that hangs would cost a full watchdog
/// period; the minimiser lowers the limit for its own executions (0 = no override)
pub static WATCHDOG_OVERRIDE_S: std::sync::atomic::AtomicU64 = std::sync::atomic::AtomicU64::new(0);

pub fn watchdog_secs() -> u64 {
    let o = WATCHDOG_OVERRIDE_S.load(std::sync::atomic::Ordering::Relaxed);
    if o != 0 {
        return o;
    }
    std::env::var("VERIF_WATCHDOG_S").ok().and_then(|s| s.parse().ok()).unwrap_or(180)
}

pub const WATCHDOG_MSG: &str = "cfr-verif: watchdog: the simulated execution did not finish";

fn submit(job: Job) -> Done {
    EXEC.with(|e| {
        let mut e = e.borrow_mut();
        if e.is_none() {
            let (tx, jrx) = std::sync::mpsc::channel::<Job>();
            let (dtx, rx) = std::sync::mpsc::channel::<Done>();
            let cancel = Arc::new(std::sync::atomic::AtomicBool::new(false));
            let c2 = cancel.clone();
            std::thread::Builder::new()
                .name("sim-executor".into())
                .stack_size(16 << 20)
                .spawn(move || executor_main(jrx, dtx, c2))
                .expect("cannot start executor thread");
            *e = Some(Executor { tx, rx, cancel });
        }
        let ex = e.as_ref().unwrap();
        const DIED: &str = "panic: the executor thread died (a panic escaped the simulated execution, e.g. a second panic while unwinding)";
        if ex.tx.send(job).is_err() {
            *e = None;
            return Done { out: SchedOut::default(), failure: Some(DIED.to_string()) };
        }
        match ex.rx.recv_timeout(std::time::Duration::from_secs(watchdog_secs())) {
            Ok(d) => d,
            Err(std::sync::mpsc::RecvTimeoutError::Timeout) => {
                // abandon the spinning executor (every hook and scheduling point of it now panics,
                // so it unwinds as soon as it reaches one); the next execution gets a fresh one
                ex.cancel.store(true, std::sync::atomic::Ordering::Relaxed);
                *e = None;
                Done { out: SchedOut::default(), failure: Some(format!("{WATCHDOG_MSG} within {} s", watchdog_secs())) }
            }
            Err(std::sync::mpsc::RecvTimeoutError::Disconnected) => {
                *e = None;
                Done { out: SchedOut::default(), failure: Some(DIED.to_string()) }
            }
        }
    })
}

/// Run `f` as one simulated execution under `spec`.
pub fn simulate<T: Send + 'static>(spec: &SchedSpec, f: impl FnOnce() -> T + Send + 'static) -> SimResult<T> {
    let slot: Arc<Mutex<Option<T>>> = Arc::new(Mutex::new(None));
    let slot2 = slot.clone();
    let done = submit(Job {
        spec: spec.clone(),
        f: Box::new(move || {
            let v = f();
            *slot2.lock().unwrap_or_else(|p| p.into_inner()) = Some(v);
        }),
    });
    let value = match done.failure {
        None => match slot.lock().unwrap_or_else(|p| p.into_inner()).take() {
            Some(v) => Ok(v),
            None => Err(Failure::Panic("simulated execution produced no value".into())),
        },
        Some(m) => {
            if m.contains("deadlock") {
                Err(Failure::Deadlock(m))
            } else if m.contains(cfr_verif_seam::STEP_BUDGET_MSG) || m.contains("exceeded max_steps") || m.contains(WATCHDOG_MSG) {
                Err(Failure::StepBudget(m))
            } else {
                Err(Failure::Panic(m))
            }
        }
    };
    SimResult { value, sched: done.out }
}
