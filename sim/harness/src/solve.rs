//! One observed call of `Game::solve` inside a simulated execution.
use crate::common::{Method, ParamSpec};
use crate::model::{named, LibGame, Profile};
use crate::rng::Fnv;
use cfr::{PlayerNum, SolveError};
use cfr_verif_seam as seam;
use verif_rayon_shim::control as rayon_ctl;

#[derive(Clone, Debug)]
pub struct SolveCfg {
    pub method: Method,
    pub params: ParamSpec,
    pub t: u64,
    pub thresh: f64,
    pub k: usize,
    pub cores: seam::Cores,
    pub sampling_seed: Option<u64>,
    pub fail_build: bool,
    pub buggify: bool,
    pub record_draws: bool,
    pub record_visits: bool,
    pub step_budget: u64,
    pub max_spawn: usize,
}

impl SolveCfg {
    pub fn new(method: Method, params: ParamSpec, t: u64, thresh: f64, k: usize, sampling_seed: u64) -> Self {
        SolveCfg {
            method,
            params,
            t,
            thresh,
            k,
            cores: seam::Cores::Real,
            sampling_seed: Some(sampling_seed),
            fail_build: false,
            buggify: true,
            record_draws: false,
            record_visits: false,
            step_budget: 0,
            max_spawn: 4096,
        }
    }
}

#[derive(Clone, Debug, PartialEq, Eq)]
pub enum ErrKind {
    ThreadOverflow,
    ThreadSpawn,
    Other(String),
}

#[derive(Debug)]
pub struct Solved {
    pub profile: Profile,
    pub bounds: [f64; 2],
    pub total_bound: f64,
}

pub struct SolveOut {
    pub result: Result<Solved, ErrKind>,
    /// the named view listed an infoset twice etc.
    pub named_error: Option<String>,
    pub seam: seam::Ctx,
    pub rayon: rayon_ctl::Stats,
}

impl SolveOut {
    pub fn hash_into(&self, h: &mut Fnv) {
        match &self.result {
            Ok(s) => {
                crate::model::profile_hash(&s.profile, h);
                h.f64(s.bounds[0]);
                h.f64(s.bounds[1]);
            }
            Err(e) => h.str(&format!("{e:?}")),
        }
        h.u64(self.seam.stats.visits);
        h.u64(self.seam.draw_counts.len() as u64);
        for d in &self.seam.draws {
            h.u64(d.kind as u64);
            h.u64(d.vid as u64);
            h.u64(d.pass);
            h.u64(d.result as u64);
        }
        h.u64(self.rayon.par_calls);
        h.u64(self.rayon.workers_spawned);
    }
}

/// Must run inside a simulated execution (the solvers use the simulator's Mutex / atomics).
pub fn observed_solve(game: &LibGame, cfg: &SolveCfg) -> SolveOut {
    seam::begin(seam::Begin {
        sampling_seed: cfg.sampling_seed,
        cores: cfg.cores,
        record_draws: cfg.record_draws,
        record_visits: cfg.record_visits,
        step_budget: cfg.step_budget,
    });
    rayon_ctl::begin(rayon_ctl::Plan { fail_build: cfg.fail_build, max_spawn: cfg.max_spawn, buggify: cfg.buggify });
    let res = game.solve(cfg.method.lib(), cfg.t, cfg.thresh, cfg.k, cfg.params.to_lib());
    let seam_ctx = seam::end();
    let rayon = rayon_ctl::end();
    let mut named_error = None;
    let result = match res {
        Ok((strat, bound)) => match named(&strat) {
            Ok(profile) => Ok(Solved {
                profile,
                bounds: [bound.player_regret_bound(PlayerNum::One), bound.player_regret_bound(PlayerNum::Two)],
                total_bound: bound.regret_bound(),
            }),
            Err(e) => {
                named_error = Some(e.clone());
                Err(ErrKind::Other(e))
            }
        },
        Err(SolveError::ThreadOverflow) => Err(ErrKind::ThreadOverflow),
        Err(SolveError::ThreadSpawnError) => Err(ErrKind::ThreadSpawn),
        #[allow(unreachable_patterns)]
        Err(e) => Err(ErrKind::Other(format!("{e:?}"))),
    };
    SolveOut { result, named_error, seam: seam_ctx, rayon }
}

/// A generous bound on decision-node visits for one solve; exceeding it is a hang.
pub fn step_budget(nodes: usize, t: u64, k: usize) -> u64 {
    64u64.saturating_mul(t.saturating_add(1)).saturating_mul(2).saturating_mul(nodes as u64 + 1).saturating_mul(k.clamp(1, 64) as u64)
}
