//! Seeded game generator. Perfect recall holds by construction: a player's infoset
//! name is that player's full observation history — every own (infoset, action) pair
//! plus the foreign events the player happened to observe — and the number of actions
//! is a function of that name. Equal names therefore imply equal own histories, and a
//! name never has one action in one place and several in another.
use crate::model::MNode;
use crate::rng::{mix, Fnv, Rng};

#[derive(Clone, Debug)]
pub struct Shape {
    pub name: &'static str,
    pub max_depth: usize,
    pub max_nodes: usize,
    /// probability that a non-root node is terminal although depth/budget remain
    pub p_terminal: f64,
    pub p_chance: f64,
    pub min_branch: usize,
    pub max_branch: usize,
    pub p_single_action: f64,
    pub p_single_outcome: f64,
    /// probability that player p observes an action of the other player
    pub obs_action: [f64; 2],
    /// probability that player p observes a chance outcome
    pub obs_chance: [f64; 2],
    /// chance nodes of one depth share an infoset (correlated sampling)
    pub p_shared_chance: f64,
    pub p_rare_outcome: f64,
    pub p_dominated: f64,
    /// strictly alternate P1 / P2 by depth (simultaneous-move layers when obs_action = 0)
    pub alternate: bool,
    /// root is a wide decision node over subtrees of very different sizes
    pub lopsided_root: bool,
    pub pay_scale: f64,
    /// payoffs are multiples of 1/1000 (exactly representable through a decimal file)
    pub decimal_payoffs: bool,
    /// payoffs are small integers (ties allowed; only for totality checks)
    pub integer_payoffs: bool,
    /// chance weights are small integers (exact rationals in a Gambit file)
    pub integer_weights: bool,
    /// chance weights are unnormalised: every weight of the game is multiplied by this
    pub weight_scale: f64,
}

pub const SHAPES: [&str; 8] =
    ["tiny", "chain", "lopsided", "bushy", "simultaneous", "poker", "degenerate", "mixed"];

pub fn shape(name: &str, r: &mut Rng) -> Shape {
    let base = Shape {
        name: "mixed",
        max_depth: 5,
        max_nodes: 120,
        p_terminal: 0.12,
        p_chance: 0.2,
        min_branch: 2,
        max_branch: 3,
        p_single_action: 0.05,
        p_single_outcome: 0.05,
        obs_action: [r.f(), r.f()],
        obs_chance: [r.f(), r.f()],
        p_shared_chance: 0.3,
        p_rare_outcome: 0.05,
        p_dominated: 0.1,
        alternate: false,
        lopsided_root: false,
        // ordinary magnitudes mostly; a tenth of the games live at extreme (still finite, still
        // exactly scalable) magnitudes so that nothing silently depends on the unit of the payoffs
        pay_scale: *r.pick(&[1e-3, 1.0, 1.0, 1.0, 1e3, 1e-3, 1.0, 1.0, 1.0, 1e3, 1e-3, 1.0, 1.0, 1.0, 1e3, 1.0, 1e-30, 1e-18, 1e18, 1e30]),
        decimal_payoffs: false,
        integer_payoffs: false,
        integer_weights: false,
        weight_scale: *r.pick(&[1.0, 1.0, 1.0, 1.0, 1.0, 1.0, 1.0, 1.0, 1.0, 1.0, 1.0, 1.0, 1.0, 1.0, 1.0, 1.0, 1e-300, 1e-30, 1e30, 8e307]),
    };
    match name {
        "tiny" => Shape { name: "tiny", max_depth: 2, max_nodes: 6, p_terminal: 0.2, ..base },
        "chain" => Shape {
            name: "chain",
            max_depth: 10,
            max_nodes: 60,
            p_terminal: 0.0,
            min_branch: 2,
            max_branch: 2,
            p_chance: 0.15,
            ..base
        },
        "lopsided" => Shape {
            name: "lopsided",
            max_depth: 6,
            max_nodes: 80 + r.usize_in(0, 320),
            lopsided_root: true,
            p_terminal: 0.1,
            ..base
        },
        "bushy" => Shape {
            name: "bushy",
            max_depth: 4,
            max_nodes: 100 + r.usize_in(0, 300),
            min_branch: 2,
            max_branch: 5,
            p_terminal: 0.05,
            ..base
        },
        "simultaneous" => Shape {
            name: "simultaneous",
            max_depth: 2 + 2 * r.usize_in(0, 2),
            max_nodes: 200,
            alternate: true,
            obs_action: [if r.coin(0.7) { 0.0 } else { 0.3 }, if r.coin(0.7) { 0.0 } else { 0.3 }],
            p_chance: 0.05,
            p_terminal: 0.03,
            min_branch: 2,
            max_branch: 4,
            p_single_action: 0.0,
            ..base
        },
        "poker" => Shape {
            name: "poker",
            max_depth: 6,
            max_nodes: 250,
            p_chance: 0.3,
            p_shared_chance: 0.8,
            obs_chance: [0.5, 0.5],
            obs_action: [0.9, 0.9],
            p_terminal: 0.15,
            ..base
        },
        // large and almost perfectly informed: a hundred or more infosets per player
        "manyinfosets" => Shape {
            name: "manyinfosets",
            max_depth: 9,
            max_nodes: 700 + r.usize_in(0, 500),
            p_terminal: 0.04,
            p_chance: 0.08,
            min_branch: 2,
            max_branch: 3,
            p_single_action: 0.0,
            obs_action: [0.97, 0.97],
            obs_chance: [0.95, 0.95],
            ..base
        },
        "degenerate" => Shape {
            name: "degenerate",
            max_depth: 5,
            max_nodes: 60,
            p_single_action: 0.35,
            p_single_outcome: 0.35,
            p_rare_outcome: 0.3,
            p_dominated: 0.3,
            ..base
        },
        _ => base,
    }
}

struct G<'a> {
    r: &'a mut Rng,
    sh: &'a Shape,
    salt: u64,
}

fn hstr(salt: u64, s: &str, k: u64) -> u64 {
    let mut h = Fnv::default();
    h.str(s);
    mix(mix(h.finish(), salt), k)
}

impl G<'_> {
    fn payoff(&mut self) -> f64 {
        let sh = self.sh;
        if sh.integer_payoffs {
            (self.r.below(5) as f64 - 2.0) * sh.pay_scale
        } else if sh.decimal_payoffs {
            (self.r.below(4001) as f64 - 2000.0) / 1000.0 * sh.pay_scale
        } else {
            (self.r.f() * 2.0 - 1.0) * sh.pay_scale
        }
    }

    fn num_actions(&self, label: &str) -> usize {
        let sh = self.sh;
        let h = hstr(self.salt, label, 1);
        if (h % 10_000) as f64 / 10_000.0 < sh.p_single_action {
            1
        } else {
            sh.min_branch + (hstr(self.salt, label, 2) % (sh.max_branch - sh.min_branch + 1) as u64) as usize
        }
    }

    fn split(&mut self, budget: usize, n: usize) -> Vec<usize> {
        // random split of `budget` nodes over n children, each at least 1
        let mut w: Vec<f64> = (0..n).map(|_| 0.05 + self.r.f()).collect();
        if self.sh.lopsided_root {
            for x in w.iter_mut() {
                *x = x.powi(3);
            }
        }
        let tot: f64 = w.iter().sum();
        w.iter().map(|x| 1 + ((budget.saturating_sub(n)) as f64 * x / tot) as usize).collect()
    }

    fn node(&mut self, depth: usize, budget: usize, labels: [&str; 2], root: bool) -> MNode {
        let sh = self.sh;
        if depth >= sh.max_depth || budget <= 1 || (!root && self.r.coin(sh.p_terminal)) {
            return MNode::T(self.payoff());
        }
        let is_chance = !(root && sh.lopsided_root) && self.r.coin(sh.p_chance);
        if is_chance {
            let shared = self.r.coin(sh.p_shared_chance);
            let (info, n, wseed) = if shared {
                let name = format!("D{depth}");
                let n = if (hstr(self.salt, &name, 3) % 100) as f64 / 100.0 < sh.p_single_outcome {
                    1
                } else {
                    2 + (hstr(self.salt, &name, 4) % 2) as usize
                };
                (Some(name.clone()), n, Some(hstr(self.salt, &name, 5)))
            } else {
                let n = if self.r.coin(sh.p_single_outcome) { 1 } else { self.r.usize_in(2, 3) };
                (None, n, None)
            };
            let mut wr = match wseed {
                Some(s) => Rng::new(s),
                None => self.r.fork(),
            };
            let rare = wr.coin(sh.p_rare_outcome);
            // unnamed chance nodes with identical distributions (fair coins) stay separate infosets
            let fair = info.is_none() && !rare && wr.coin(0.2);
            let int_w = sh.integer_weights;
            let weights: Vec<f64> = (0..n)
                .map(|i| {
                    if fair {
                        1.0
                    } else if int_w {
                        if rare && i == 0 && n > 1 {
                            1.0
                        } else if rare {
                            50.0 + wr.below(50) as f64
                        } else {
                            1.0 + wr.below(5) as f64
                        }
                    } else if rare && i == 0 && n > 1 {
                        // (scaled below) mostly 1e-3; sometimes so unlikely that everything below it has a
                        // reach far under the machine epsilon
                        *wr.pick(&[1e-3, 1e-3, 1e-3, 1e-3, 1e-9, 1e-18])
                    } else {
                        0.2 + wr.f()
                    }
                })
                .map(|w| if int_w { w } else { w * sh.weight_scale })
                .collect();
            let budgets = self.split(budget - 1, n);
            let mut outs = vec![];
            for i in 0..n {
                let o0 = self.r.coin(sh.obs_chance[0]);
                let o1 = self.r.coin(sh.obs_chance[1]);
                let l0 = if o0 { format!("{}:{}", labels[0], i) } else { labels[0].to_string() };
                let l1 = if o1 { format!("{}:{}", labels[1], i) } else { labels[1].to_string() };
                let mut child = self.node(depth + 1, budgets[i], [&l0, &l1], false);
                // a lottery: behind an outcome of probability <= 1e-9 everything may pay 1/p times
                // more, so that the branch still contributes order one to every utility
                let p_rel = crate::model::normalised(&weights)[i];
                if !int_w && rare && i == 0 && n > 1 && p_rel > 0.0 && p_rel < 1e-6 && self.r.coin(0.5) {
                    let k = (1.0 / p_rel).log2().round().exp2(); // a power of two: exact scaling
                    if k.is_finite() && (k * 4.0 * sh.pay_scale).is_finite() && k * 4.0 * sh.pay_scale < 1e250 {
                        child = child.map_payoffs(&mut |x| x * k);
                    }
                }
                outs.push((format!("o{i}"), weights[i], child));
            }
            MNode::C { info, outs }
        } else {
            let p = if sh.alternate || (root && sh.lopsided_root) { depth % 2 } else { self.r.below(2) as usize };
            let own = labels[p];
            let n = if root && sh.lopsided_root { 5 + (hstr(self.salt, own, 6) % 4) as usize } else { self.num_actions(own) };
            let budgets = self.split(budget - 1, n);
            let dominated = if n > 1 && self.r.coin(sh.p_dominated) { Some(self.r.below(n as u64) as usize) } else { None };
            // in a simultaneous layer either nobody or everybody at that layer sees the move
            let seen_all = self.r.coin(sh.obs_action[1 - p]);
            let mut acts = vec![];
            for i in 0..n {
                let seen = if sh.alternate { seen_all } else { self.r.coin(sh.obs_action[1 - p]) };
                let own_next = format!("{own}/{i}");
                let other = labels[1 - p];
                let other_next = if seen { format!("{other}.{i}") } else { other.to_string() };
                let ls: [&str; 2] = if p == 0 { [&own_next, &other_next] } else { [&other_next, &own_next] };
                let mut child = self.node(depth + 1, budgets[i], ls, false);
                if dominated == Some(i) {
                    let shift = if p == 0 { -2.5 * sh.pay_scale } else { 2.5 * sh.pay_scale };
                    child = child.map_payoffs(&mut |x| x + shift);
                }
                acts.push((format!("a{i}"), child));
            }
            MNode::P { player: p, info: format!("{}{}", if p == 0 { "X" } else { "Y" }, own), acts }
        }
    }
}

pub fn generate(r: &mut Rng, sh: &Shape) -> MNode {
    let salt = r.next();
    let mut g = G { r, sh, salt };
    g.node(0, sh.max_nodes, ["", ""], true)
}

/// A generated game of a swarm-chosen shape that has at least `min_infosets` decision infosets.
pub fn game(r: &mut Rng, shapes: &[&str], min_infosets: usize) -> (MNode, &'static str) {
    loop {
        // (one game in fifty is of the large, many-infosets shape whatever the check asked for)
        let name = if shapes.len() > 1 && r.coin(0.02) { "manyinfosets" } else { *r.pick(shapes) };
        let sh = shape(name, r);
        let g = generate(r, &sh);
        if g.stats().n() >= min_infosets {
            return (g, sh.name);
        }
    }
}

pub fn game_with(r: &mut Rng, shapes: &[&str], min_infosets: usize, tweak: impl Fn(&mut Shape)) -> (MNode, &'static str) {
    loop {
        let name = *r.pick(shapes);
        let mut sh = shape(name, r);
        tweak(&mut sh);
        let g = generate(r, &sh);
        if g.stats().n() >= min_infosets {
            return (g, sh.name);
        }
    }
}

/// games for the command-line checks: every number is an exact short decimal / small integer
pub fn cli_game(r: &mut Rng, min_infosets: usize, max_nodes: usize) -> (MNode, &'static str) {
    let shapes = ["poker", "mixed", "degenerate", "simultaneous", "tiny", "chain", "lopsided", "bushy"];
    // the smallest game there is: the root is a terminal
    if min_infosets == 0 && r.coin(0.01) {
        let x = (r.below(20001) as f64 - 10000.0) / 1000.0;
        return (MNode::T(x), "terminal");
    }
    let (g, shape) = game_with(r, &shapes, min_infosets, |s| {
        s.decimal_payoffs = true;
        s.integer_payoffs = false;
        s.integer_weights = true;
        s.weight_scale = 1.0;
        s.pay_scale = 1.0;
        s.max_nodes = s.max_nodes.min(max_nodes);
    });
    // every payoff is THE double nearest to a multiple of 1/1000 (what a parser makes of the
    // short decimal the writers emit), also after the shifts of dominated actions
    let g = g.map_payoffs(&mut |x| ((x * 1000.0).round()) / 1000.0);
    // a lottery: one outcome of an unnamed chance node has probability ~1e-17 and everything
    // behind it pays ~1e17 times more, so that it still contributes order one to every utility
    let g = if r.coin(0.06) { lottery(&g, r).unwrap_or(g) } else { g };
    // name patterns: multi-byte names; names that need escaping (quotes, backslashes); numeric-
    // looking infoset names that coincide across the two players (names are per player)
    let g = match r.below(20) {
        0..=5 => unicode_names(&g),
        6..=7 => escaped_names(&g),
        8..=9 => numeric_names(&g),
        _ => g,
    };
    // the empty string is a name like any other: one infoset per player may be called ""
    let g = if r.coin(0.1) { empty_name(&g) } else { g };
    (g, shape)
}

/// see `cli_game`; all numbers stay exactly representable (weights 1 and 1e17, payoffs
/// (thousandths) x 1e14)
pub fn lottery(g: &MNode, r: &mut Rng) -> Option<MNode> {
    fn count(n: &MNode) -> usize {
        match n {
            MNode::T(_) => 0,
            MNode::C { info, outs } => (info.is_none() && outs.len() > 1) as usize + outs.iter().map(|(_, _, c)| count(c)).sum::<usize>(),
            MNode::P { acts, .. } => acts.iter().map(|(_, c)| count(c)).sum(),
        }
    }
    fn go(n: &MNode, which: &mut isize) -> MNode {
        match n {
            MNode::T(x) => MNode::T(*x),
            MNode::C { info, outs } => {
                let mut hit = false;
                if info.is_none() && outs.len() > 1 {
                    *which -= 1;
                    hit = *which == -1;
                }
                if hit {
                    MNode::C {
                        info: None,
                        outs: outs
                            .iter()
                            .enumerate()
                            .map(|(k, (a, _, c))| if k == 0 { (a.clone(), 1.0, c.map_payoffs(&mut |x| (x * 1000.0).round() * 1e14)) } else { (a.clone(), 1e17, c.clone()) })
                            .collect(),
                    }
                } else {
                    MNode::C { info: info.clone(), outs: outs.iter().map(|(a, w, c)| (a.clone(), *w, go(c, which))).collect() }
                }
            }
            MNode::P { player, info, acts } => MNode::P { player: *player, info: info.clone(), acts: acts.iter().map(|(a, c)| (a.clone(), go(c, which))).collect() },
        }
    }
    let n = count(g);
    if n == 0 {
        return None;
    }
    let mut which = r.below(n as u64) as isize;
    Some(go(g, &mut which))
}

fn escaped_names(n: &MNode) -> MNode {
    match n {
        MNode::T(x) => MNode::T(*x),
        MNode::C { info, outs } => MNode::C {
            info: info.as_ref().map(|i| i.replace('D', "D\\")),
            outs: outs.iter().map(|(a, w, c)| (a.replace('o', "o\""), *w, escaped_names(c))).collect(),
        },
        MNode::P { player, info, acts } => MNode::P {
            player: *player,
            info: info.replace('X', "X\"").replace('Y', "Y\\\""),
            acts: acts.iter().map(|(a, c)| (a.replace('a', "say \"a\\"), escaped_names(c))).collect(),
        },
    }
}

/// infosets of each player renamed "1", "2", ... in order of first appearance (the same strings
/// for both players)
fn numeric_names(g: &MNode) -> MNode {
    fn go(n: &MNode, maps: &mut [std::collections::BTreeMap<String, String>; 2]) -> MNode {
        match n {
            MNode::T(x) => MNode::T(*x),
            MNode::C { info, outs } => MNode::C { info: info.clone(), outs: outs.iter().map(|(a, w, c)| (a.clone(), *w, go(c, maps))).collect() },
            MNode::P { player, info, acts } => {
                let k = maps[*player].len() + 1;
                // canonical and non-canonical spellings ("01", "+3" are names like any other, not numbers)
                let spelled = match k % 4 {
                    2 => format!("0{k}"),
                    3 => format!("+{k}"),
                    _ => k.to_string(),
                };
                let name = maps[*player].entry(info.clone()).or_insert_with(|| spelled).clone();
                MNode::P { player: *player, info: name, acts: acts.iter().map(|(a, c)| (a.clone(), go(c, maps))).collect() }
            }
        }
    }
    go(g, &mut Default::default())
}

/// the first infoset of each player (in tree order) is renamed ""
fn empty_name(g: &MNode) -> MNode {
    fn first(n: &MNode, f: &mut [Option<String>; 2]) {
        match n {
            MNode::T(_) => {}
            MNode::C { outs, .. } => outs.iter().for_each(|(_, _, c)| first(c, f)),
            MNode::P { player, info, acts } => {
                if f[*player].is_none() {
                    f[*player] = Some(info.clone());
                }
                acts.iter().for_each(|(_, c)| first(c, f));
            }
        }
    }
    fn go(n: &MNode, f: &[Option<String>; 2]) -> MNode {
        match n {
            MNode::T(x) => MNode::T(*x),
            MNode::C { info, outs } => MNode::C { info: info.clone(), outs: outs.iter().map(|(a, w, c)| (a.clone(), *w, go(c, f))).collect() },
            MNode::P { player, info, acts } => MNode::P {
                player: *player,
                info: if f[*player].as_ref() == Some(info) { String::new() } else { info.clone() },
                acts: acts.iter().map(|(a, c)| (a.clone(), go(c, f))).collect(),
            },
        }
    }
    let mut f: [Option<String>; 2] = [None, None];
    first(g, &mut f);
    // (only if no infoset of that player is already called "")
    let infos = g.infosets();
    for p in 0..2 {
        if infos[p].contains_key("") {
            f[p] = None;
        }
    }
    go(g, &f)
}

fn unicode_names(n: &MNode) -> MNode {
    match n {
        MNode::T(x) => MNode::T(*x),
        MNode::C { info, outs } => MNode::C {
            info: info.as_ref().map(|i| i.replace('D', "\u{394}")),
            outs: outs.iter().map(|(a, w, c)| (a.replace('o', "\u{f6}"), *w, unicode_names(c))).collect(),
        },
        MNode::P { player, info, acts } => MNode::P {
            player: *player,
            info: info.replace('X', "\u{39e}\u{2192}").replace('Y', "\u{3a8}\u{20ac}"),
            acts: acts.iter().map(|(a, c)| (a.replace('a', "\u{e4}"), unicode_names(c))).collect(),
        },
    }
}
