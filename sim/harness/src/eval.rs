//! Independent evaluator: expected utility and exact best response on the harness's own
//! tree type. Shares no code with `src/regret.rs` and never calls `Strategies::get_info`.
use crate::model::{MNode, Profile};
use std::collections::BTreeMap;

fn prob(prof: &Profile, p: usize, info: &str, act: &str) -> f64 {
    prof[p].get(info).and_then(|m| m.get(act)).copied().unwrap_or(0.0)
}

/// expected payoff to player one
pub fn expected(n: &MNode, prof: &Profile) -> f64 {
    match n {
        MNode::T(x) => *x,
        MNode::C { outs, .. } => {
            let q = crate::model::normalised(&outs.iter().map(|(_, w, _)| *w).collect::<Vec<_>>());
            outs.iter().zip(&q).map(|((_, _, c), q)| q * expected(c, prof)).sum()
        }
        MNode::P { player, info, acts } => {
            if acts.len() == 1 {
                expected(&acts[0].1, prof)
            } else {
                acts.iter().map(|(a, c)| prob(prof, *player, info, a) * expected(c, prof)).sum()
            }
        }
    }
}

type Group<'a> = BTreeMap<&'a str, Vec<(&'a MNode, f64)>>;

/// Walk down from `n` with weight `w` (chance x opponent reach) until the next decision
/// nodes of player `me`; returns the weighted payoff (to `me`) of the terminals reached
/// on the way and files the decision nodes by infoset.
fn expand<'a>(n: &'a MNode, w: f64, me: usize, prof: &Profile, out: &mut Group<'a>) -> f64 {
    if w == 0.0 {
        return 0.0;
    }
    match n {
        MNode::T(x) => w * if me == 0 { *x } else { -*x },
        MNode::C { outs, .. } => {
            let qs = crate::model::normalised(&outs.iter().map(|(_, q, _)| *q).collect::<Vec<_>>());
            outs.iter().zip(&qs).map(|((_, _, c), q)| expand(c, w * q, me, prof, out)).sum()
        }
        MNode::P { player, info, acts } => {
            if *player == me {
                out.entry(info.as_str()).or_default().push((n, w));
                0.0
            } else if acts.len() == 1 {
                expand(&acts[0].1, w, me, prof, out)
            } else {
                acts.iter().map(|(a, c)| expand(c, w * prob(prof, *player, info, a), me, prof, out)).sum()
            }
        }
    }
}

/// Best value obtainable from a set of own infosets that are all reached after the same own
/// history. With perfect recall the infosets following different (infoset, action) pairs
/// are disjoint, so the optimum decomposes as sum over infosets of max over actions.
fn best(group: Group<'_>, me: usize, prof: &Profile) -> f64 {
    let mut total = 0.0;
    for (_, nodes) in group {
        let nact = match nodes[0].0 {
            MNode::P { acts, .. } => acts.len(),
            _ => unreachable!(),
        };
        let mut best_v = f64::NEG_INFINITY;
        for a in 0..nact {
            let mut next: Group<'_> = BTreeMap::new();
            let mut v = 0.0;
            for (n, w) in &nodes {
                if let MNode::P { acts, .. } = n {
                    v += expand(&acts[a].1, *w, me, prof, &mut next);
                }
            }
            v += best(next, me, prof);
            if v > best_v {
                best_v = v;
            }
        }
        total += best_v;
    }
    total
}

/// value of `me`'s best response against the other player's strategy in `prof`
pub fn best_response_value(root: &MNode, me: usize, prof: &Profile) -> f64 {
    let mut g: Group<'_> = BTreeMap::new();
    let t = expand(root, 1.0, me, prof, &mut g);
    t + best(g, me, prof)
}

#[derive(Clone, Copy, Debug)]
pub struct Info {
    /// expected payoff to player one
    pub util: f64,
    /// true regret of each player (>= 0)
    pub regret: [f64; 2],
}

impl Info {
    pub fn total(&self) -> f64 {
        self.regret[0].max(self.regret[1])
    }
}

pub fn evaluate(root: &MNode, prof: &Profile) -> Info {
    let util = expected(root, prof);
    let br0 = best_response_value(root, 0, prof);
    let br1 = best_response_value(root, 1, prof);
    Info { util, regret: [(br0 - util).max(0.0), (br1 + util).max(0.0)] }
}

/// Brute force over pure strategies of `me` (cross-check of `best_response_value`);
/// None if there are more than `limit` pure strategies.
pub fn brute_force_br(root: &MNode, me: usize, prof: &Profile, limit: usize) -> Option<f64> {
    let infos = root.infosets();
    let mine: Vec<(&String, &Vec<String>)> = infos[me].iter().collect();
    let mut count = 1usize;
    for (_, a) in &mine {
        count = count.checked_mul(a.len())?;
        if count > limit {
            return None;
        }
    }
    let mut best_v = f64::NEG_INFINITY;
    let mut choice = vec![0usize; mine.len()];
    loop {
        let mut dev = prof.clone();
        dev[me].clear();
        for ((i, acts), c) in mine.iter().zip(&choice) {
            dev[me].insert((*i).clone(), [(acts[*c].clone(), 1.0)].into_iter().collect());
        }
        let u = expected(root, &dev);
        let v = if me == 0 { u } else { -u };
        if v > best_v {
            best_v = v;
        }
        // next choice vector
        let mut k = 0;
        loop {
            if k == choice.len() {
                return Some(best_v);
            }
            choice[k] += 1;
            if choice[k] < mine[k].1.len() {
                break;
            }
            choice[k] = 0;
            k += 1;
        }
    }
}
