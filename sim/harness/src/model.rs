//! The harness's own game-tree type. Generators build it, the independent evaluator and
//! the reference CFR model read it, and it converts into a `cfr::Game` through the
//! public `IntoGameNode` trait only.
use crate::rng::Fnv;
use cfr::{Game, GameNode, IntoGameNode, PlayerNum};
use serde_json::{json, Value};
use std::collections::{BTreeMap, BTreeSet};

#[derive(Clone, Debug, PartialEq)]
pub enum MNode {
    /// payoff to player one
    T(f64),
    /// chance node: optional infoset, outcomes (name, weight, child)
    C { info: Option<String>, outs: Vec<(String, f64, MNode)> },
    /// decision node: player 0/1, infoset, actions (name, child)
    P { player: usize, info: String, acts: Vec<(String, MNode)> },
}

impl IntoGameNode for MNode {
    type PlayerInfo = String;
    type Action = String;
    type ChanceInfo = String;
    type Outcomes = Vec<(f64, MNode)>;
    type Actions = Vec<(String, MNode)>;

    fn into_game_node(self) -> GameNode<Self> {
        match self {
            MNode::T(x) => GameNode::Terminal(x),
            MNode::C { info, outs } => GameNode::Chance(info, outs.into_iter().map(|(_, w, n)| (w, n)).collect()),
            MNode::P { player, info, acts } => {
                GameNode::Player(if player == 0 { PlayerNum::One } else { PlayerNum::Two }, info, acts)
            }
        }
    }
}

pub type LibGame = Game<String, String>;

/// behavioural strategy profile keyed by names: [player][infoset][action] -> probability
pub type Profile = [BTreeMap<String, BTreeMap<String, f64>>; 2];

/// The harness's own reading of "probability proportional to the declared weights": robust
/// against overflow / underflow of the total (weights are only required to be positive and
/// finite), written independently of the library's normalisation.
pub fn normalised(ws: &[f64]) -> Vec<f64> {
    let max = ws.iter().cloned().fold(0.0, f64::max);
    if !(max > 0.0) {
        return ws.iter().map(|_| f64::NAN).collect();
    }
    let scaled: Vec<f64> = ws.iter().map(|w| w / max).collect();
    let tot: f64 = scaled.iter().sum();
    scaled.iter().map(|w| w / tot).collect()
}

pub fn pnum(p: usize) -> PlayerNum {
    if p == 0 {
        PlayerNum::One
    } else {
        PlayerNum::Two
    }
}

/// f64 <-> JSON without loss (serde_json's parser is not guaranteed to round-trip)
pub fn fj(x: f64) -> Value {
    Value::String(format!("{:016x}|{:e}", x.to_bits(), x))
}

pub fn jf(v: &Value) -> Result<f64, String> {
    match v {
        Value::String(s) => {
            let hex = s.split('|').next().unwrap_or("");
            u64::from_str_radix(hex, 16).map(f64::from_bits).map_err(|e| format!("bad float {s}: {e}"))
        }
        Value::Number(n) => n.as_f64().ok_or_else(|| "bad number".to_string()),
        _ => Err(format!("not a float: {v}")),
    }
}

#[derive(Clone, Debug, Default)]
pub struct GameStats {
    pub nodes: usize,
    pub leaves: usize,
    pub depth: usize,
    pub min_pay: f64,
    pub max_pay: f64,
    /// multi-action infosets per player (the library's "decision infosets")
    pub infosets: [usize; 2],
    pub single_infosets: [usize; 2],
    pub max_actions: usize,
    pub chance_nodes: usize,
    pub named_chance_infosets: usize,
    /// some infoset contains more than one node
    pub shared_infoset_nodes: usize,
}

impl GameStats {
    /// payoff range D
    pub fn d(&self) -> f64 {
        (self.max_pay - self.min_pay).max(0.0)
    }
    /// total number of decision infosets N
    pub fn n(&self) -> usize {
        self.infosets[0] + self.infosets[1]
    }
    /// max actions per infoset A
    pub fn a(&self) -> usize {
        self.max_actions.max(1)
    }
}

impl MNode {
    pub fn to_json(&self) -> Value {
        match self {
            MNode::T(x) => json!({ "t": fj(*x) }),
            MNode::C { info, outs } => json!({
                "c": info,
                "o": outs.iter().map(|(n, w, c)| json!([n, fj(*w), c.to_json()])).collect::<Vec<_>>(),
            }),
            MNode::P { player, info, acts } => json!({
                "p": player,
                "i": info,
                "a": acts.iter().map(|(n, c)| json!([n, c.to_json()])).collect::<Vec<_>>(),
            }),
        }
    }

    pub fn from_json(v: &Value) -> Result<MNode, String> {
        let o = v.as_object().ok_or("node not an object")?;
        if let Some(t) = o.get("t") {
            Ok(MNode::T(jf(t)?))
        } else if let Some(outs) = o.get("o") {
            let info = o.get("c").and_then(|x| x.as_str()).map(|s| s.to_string());
            let mut res = vec![];
            for e in outs.as_array().ok_or("o not array")? {
                let e = e.as_array().ok_or("outcome not array")?;
                res.push((
                    e[0].as_str().ok_or("outcome name")?.to_string(),
                    jf(&e[1])?,
                    MNode::from_json(&e[2])?,
                ));
            }
            Ok(MNode::C { info, outs: res })
        } else if let Some(acts) = o.get("a") {
            let player = o.get("p").and_then(|x| x.as_u64()).ok_or("player")? as usize;
            let info = o.get("i").and_then(|x| x.as_str()).ok_or("infoset")?.to_string();
            let mut res = vec![];
            for e in acts.as_array().ok_or("a not array")? {
                let e = e.as_array().ok_or("action not array")?;
                res.push((e[0].as_str().ok_or("action name")?.to_string(), MNode::from_json(&e[1])?));
            }
            Ok(MNode::P { player, info, acts: res })
        } else {
            Err("unknown node".into())
        }
    }

    pub fn hash_into(&self, h: &mut Fnv) {
        match self {
            MNode::T(x) => {
                h.u64(1);
                h.f64(*x)
            }
            MNode::C { info, outs } => {
                h.u64(2);
                h.str(info.as_deref().unwrap_or("\0none"));
                h.u64(outs.len() as u64);
                for (n, w, c) in outs {
                    h.str(n);
                    h.f64(*w);
                    c.hash_into(h);
                }
            }
            MNode::P { player, info, acts } => {
                h.u64(3 + *player as u64);
                h.str(info);
                h.u64(acts.len() as u64);
                for (n, c) in acts {
                    h.str(n);
                    c.hash_into(h);
                }
            }
        }
    }

    pub fn hash(&self) -> u64 {
        let mut h = Fnv::default();
        self.hash_into(&mut h);
        h.finish()
    }

    pub fn count_nodes(&self) -> usize {
        match self {
            MNode::T(_) => 1,
            MNode::C { outs, .. } => 1 + outs.iter().map(|(_, _, c)| c.count_nodes()).sum::<usize>(),
            MNode::P { acts, .. } => 1 + acts.iter().map(|(_, c)| c.count_nodes()).sum::<usize>(),
        }
    }

    pub fn stats(&self) -> GameStats {
        let mut st = GameStats { min_pay: f64::INFINITY, max_pay: f64::NEG_INFINITY, ..Default::default() };
        let mut multi: [BTreeMap<String, usize>; 2] = Default::default();
        let mut single: [BTreeSet<String>; 2] = Default::default();
        let mut cinfo: BTreeSet<String> = BTreeSet::new();
        fn rec(
            n: &MNode,
            d: usize,
            st: &mut GameStats,
            multi: &mut [BTreeMap<String, usize>; 2],
            single: &mut [BTreeSet<String>; 2],
            cinfo: &mut BTreeSet<String>,
        ) {
            st.nodes += 1;
            st.depth = st.depth.max(d);
            match n {
                MNode::T(x) => {
                    st.leaves += 1;
                    st.min_pay = st.min_pay.min(*x);
                    st.max_pay = st.max_pay.max(*x);
                }
                MNode::C { info, outs } => {
                    if outs.len() > 1 {
                        st.chance_nodes += 1;
                        if let Some(i) = info {
                            cinfo.insert(i.clone());
                        }
                    }
                    for (_, _, c) in outs {
                        rec(c, d + 1, st, multi, single, cinfo);
                    }
                }
                MNode::P { player, info, acts } => {
                    if acts.len() > 1 {
                        let e = multi[*player].entry(info.clone()).or_insert(0);
                        *e += 1;
                        if *e == 2 {
                            st.shared_infoset_nodes += 1;
                        }
                        st.max_actions = st.max_actions.max(acts.len());
                    } else {
                        single[*player].insert(info.clone());
                    }
                    for (_, c) in acts {
                        rec(c, d + 1, st, multi, single, cinfo);
                    }
                }
            }
        }
        rec(self, 0, &mut st, &mut multi, &mut single, &mut cinfo);
        st.infosets = [multi[0].len(), multi[1].len()];
        st.single_infosets = [single[0].len(), single[1].len()];
        st.named_chance_infosets = cinfo.len();
        if st.leaves == 0 {
            st.min_pay = 0.0;
            st.max_pay = 0.0;
        }
        st
    }

    /// Reach-weighted magnitude: an upper bound on the absolute value of every expected utility
    /// and every best-response value of the game (chance averages, players maximise). Rounding
    /// noise of any evaluation is proportional to this, not to the payoff range — the two differ
    /// by many orders of magnitude in a "lottery" game (a huge payoff behind a tiny probability).
    pub fn mag(&self) -> f64 {
        match self {
            MNode::T(x) => x.abs(),
            MNode::C { outs, .. } => {
                let q = normalised(&outs.iter().map(|(_, w, _)| *w).collect::<Vec<_>>());
                outs.iter().zip(&q).map(|((_, _, c), q)| q * c.mag()).sum()
            }
            MNode::P { acts, .. } => acts.iter().map(|(_, c)| c.mag()).fold(0.0, f64::max),
        }
    }

    /// apply `f` to every terminal payoff, in depth-first order
    pub fn map_payoffs(&self, f: &mut impl FnMut(f64) -> f64) -> MNode {
        match self {
            MNode::T(x) => MNode::T(f(*x)),
            MNode::C { info, outs } => MNode::C {
                info: info.clone(),
                outs: outs.iter().map(|(n, w, c)| (n.clone(), *w, c.map_payoffs(f))).collect(),
            },
            MNode::P { player, info, acts } => MNode::P {
                player: *player,
                info: info.clone(),
                acts: acts.iter().map(|(n, c)| (n.clone(), c.map_payoffs(f))).collect(),
            },
        }
    }

    /// apply `f` to every chance weight
    pub fn map_weights(&self, f: &mut impl FnMut(f64) -> f64) -> MNode {
        match self {
            MNode::T(x) => MNode::T(*x),
            MNode::C { info, outs } => MNode::C {
                info: info.clone(),
                outs: outs.iter().map(|(n, w, c)| (n.clone(), f(*w), c.map_weights(f))).collect(),
            },
            MNode::P { player, info, acts } => MNode::P {
                player: *player,
                info: info.clone(),
                acts: acts.iter().map(|(n, c)| (n.clone(), c.map_weights(f))).collect(),
            },
        }
    }

    /// all infosets of a player with their action names (first occurrence wins)
    /// names of the special tree shapes this game contains (reach probes of the CLI checks)
    pub fn shape_probes(&self) -> Vec<&'static str> {
        fn go(n: &MNode, depth: usize, under_chance: bool, f: &mut std::collections::BTreeSet<&'static str>, depths: &mut BTreeMap<(usize, String), usize>) {
            match n {
                MNode::T(x) => {
                    if *x == 0.0 {
                        f.insert("shape_payoff_exactly_zero");
                    }
                }
                MNode::C { outs, .. } => {
                    if outs.len() == 1 {
                        f.insert("shape_chance_node_with_one_outcome");
                    }
                    if under_chance {
                        f.insert("shape_chance_directly_under_chance");
                    }
                    if outs.len() >= 6 {
                        f.insert("shape_six_or_more_branches");
                    }
                    outs.iter().for_each(|(_, _, c)| go(c, depth + 1, true, f, depths));
                }
                MNode::P { player, info, acts } => {
                    if acts.len() == 1 {
                        f.insert("shape_single_action_infoset");
                    }
                    if acts.len() >= 6 {
                        f.insert("shape_six_or_more_branches");
                    }
                    match depths.get(&(*player, info.clone())) {
                        Some(d) if *d != depth => {
                            f.insert("shape_one_infoset_at_two_depths");
                        }
                        Some(_) => {}
                        None => {
                            depths.insert((*player, info.clone()), depth);
                        }
                    }
                    if acts.iter().all(|(_, c)| matches!(c, MNode::T(_))) && acts.iter().all(|(_, c)| matches!(c, MNode::T(x) if matches!(&acts[0].1, MNode::T(y) if x == y))) && acts.len() > 1 {
                        f.insert("shape_infoset_with_all_actions_equal");
                    }
                    acts.iter().for_each(|(_, c)| go(c, depth + 1, false, f, depths));
                }
            }
        }
        let mut f = std::collections::BTreeSet::new();
        f.insert(match self {
            MNode::T(_) => "shape_root_is_a_terminal",
            MNode::C { .. } => "shape_root_is_a_chance_node",
            MNode::P { .. } => "shape_root_is_a_decision_node",
        });
        go(self, 0, false, &mut f, &mut BTreeMap::new());
        let infos = self.infosets();
        if infos[0].is_empty() != infos[1].is_empty() {
            f.insert("shape_one_player_never_moves");
        }
        if infos[0].is_empty() && infos[1].is_empty() {
            f.insert("shape_nobody_moves");
        }
        f.into_iter().collect()
    }

    pub fn infosets(&self) -> [BTreeMap<String, Vec<String>>; 2] {
        let mut res: [BTreeMap<String, Vec<String>>; 2] = Default::default();
        fn rec(n: &MNode, res: &mut [BTreeMap<String, Vec<String>>; 2]) {
            match n {
                MNode::T(_) => {}
                MNode::C { outs, .. } => outs.iter().for_each(|(_, _, c)| rec(c, res)),
                MNode::P { player, info, acts } => {
                    res[*player].entry(info.clone()).or_insert_with(|| acts.iter().map(|(a, _)| a.clone()).collect());
                    acts.iter().for_each(|(_, c)| rec(c, res));
                }
            }
        }
        rec(self, &mut res);
        res
    }

    pub fn uniform_profile(&self) -> Profile {
        let infos = self.infosets();
        let mut prof: Profile = Default::default();
        for p in 0..2 {
            for (i, acts) in &infos[p] {
                let u = 1.0 / acts.len() as f64;
                prof[p].insert(i.clone(), acts.iter().map(|a| (a.clone(), u)).collect());
            }
        }
        prof
    }

    pub fn build(&self) -> Result<LibGame, cfr::GameError> {
        Game::from_root(self.clone())
    }
}

/// Named view of a library strategy as an ordered map. Errors if an infoset is listed twice.
pub fn named(s: &cfr::Strategies<String, String>) -> Result<Profile, String> {
    let mut prof: Profile = Default::default();
    for (p, it) in s.as_named().into_iter().enumerate() {
        for (info, acts) in it {
            let m: BTreeMap<String, f64> = acts.map(|(a, q)| (a.clone(), q)).collect();
            if prof[p].insert(info.clone(), m).is_some() {
                return Err(format!("infoset {info:?} of player {} listed twice in the named view", p + 1));
            }
        }
    }
    Ok(prof)
}

/// largest absolute probability difference; infosets must match exactly
pub fn profile_diff(a: &Profile, b: &Profile) -> Result<f64, String> {
    let mut d = 0.0f64;
    for p in 0..2 {
        if a[p].len() != b[p].len() || a[p].keys().zip(b[p].keys()).any(|(x, y)| x != y) {
            return Err(format!("player {} infoset sets differ", p + 1));
        }
        for (i, ma) in &a[p] {
            let mb = &b[p][i];
            for k in ma.keys().chain(mb.keys()) {
                let x = ma.get(k).copied().unwrap_or(0.0);
                let y = mb.get(k).copied().unwrap_or(0.0);
                let e = (x - y).abs();
                if e.is_nan() {
                    return Err("NaN probability".into());
                }
                d = d.max(e);
            }
        }
    }
    Ok(d)
}

pub fn profile_json(p: &Profile) -> Value {
    json!([p[0], p[1]])
}

pub fn profile_hash(p: &Profile, h: &mut Fnv) {
    for pl in p {
        for (i, m) in pl {
            h.str(i);
            for (a, q) in m {
                h.str(a);
                h.f64(*q);
            }
        }
    }
}

/// Is `prof` a valid behavioural profile of `game`: exactly the game's infosets, legal
/// actions only, finite probabilities in (0,1] (zero ones omitted) summing to 1.
pub fn check_profile(game: &MNode, prof: &Profile) -> Result<(), String> {
    let infos = game.infosets();
    for p in 0..2 {
        for (i, acts) in &infos[p] {
            let m = prof[p].get(i).ok_or_else(|| format!("player {} infoset {i:?} missing", p + 1))?;
            if m.is_empty() {
                return Err(format!("player {} infoset {i:?} has no action with positive probability", p + 1));
            }
            let mut tot = 0.0;
            for (a, q) in m {
                if !acts.contains(a) {
                    return Err(format!("player {} infoset {i:?}: illegal action {a:?}", p + 1));
                }
                if !(q.is_finite() && *q > 0.0 && *q <= 1.0 + 1e-9) {
                    return Err(format!("player {} infoset {i:?} action {a:?}: probability {q}", p + 1));
                }
                tot += q;
            }
            if (tot - 1.0).abs() > 1e-9 {
                return Err(format!("player {} infoset {i:?}: probabilities sum to {tot}", p + 1));
            }
        }
        for i in prof[p].keys() {
            if !infos[p].contains_key(i) {
                return Err(format!("player {} has unknown infoset {i:?}", p + 1));
            }
        }
    }
    Ok(())
}
