//! Types shared by all checks: solver configuration, cases, verdicts, per-run metrics.
use crate::model::{fj, jf, MNode};
use crate::rng::Fnv;
use crate::sched::SchedSpec;
use cfr::{RegretParams, SolveMethod};
use cfr_verif_seam::Cores;
use serde_json::{json, Value};
use std::collections::BTreeMap;

#[derive(Clone, Copy, Debug, PartialEq, Eq, PartialOrd, Ord)]
pub enum Tier {
    Quick,
    Thorough,
}

impl Tier {
    pub fn name(&self) -> &'static str {
        match self {
            Tier::Quick => "quick",
            Tier::Thorough => "thorough",
        }
    }
}

#[derive(Clone, Copy, Debug, PartialEq, Eq, PartialOrd, Ord)]
pub enum Method {
    Full,
    Sampled,
    External,
}

impl Method {
    pub const ALL: [Method; 3] = [Method::Full, Method::Sampled, Method::External];
    pub fn lib(&self) -> SolveMethod {
        match self {
            Method::Full => SolveMethod::Full,
            Method::Sampled => SolveMethod::Sampled,
            Method::External => SolveMethod::External,
        }
    }
    pub fn name(&self) -> &'static str {
        match self {
            Method::Full => "full",
            Method::Sampled => "sampled",
            Method::External => "external",
        }
    }
    pub fn from_name(s: &str) -> Result<Method, String> {
        Ok(match s {
            "full" => Method::Full,
            "sampled" => Method::Sampled,
            "external" => Method::External,
            _ => return Err(format!("unknown method {s}")),
        })
    }
}

pub const PRESETS: [&str; 5] = ["vanilla", "lcfr", "cfr_plus", "dcfr", "dcfr_prune"];

/// How the `params` argument of `solve` is produced.
#[derive(Clone, Debug, PartialEq)]
pub enum ParamSpec {
    /// `None` (the documented default)
    Default,
    /// one of the five named constructors
    Preset(&'static str),
    /// `RegretParams::new(a, b, g, w)`
    Custom([f64; 4]),
}

impl ParamSpec {
    pub fn to_lib(&self) -> Option<RegretParams> {
        match self {
            ParamSpec::Default => None,
            ParamSpec::Preset(p) => Some(match *p {
                "vanilla" => RegretParams::vanilla(),
                "lcfr" => RegretParams::lcfr(),
                "cfr_plus" => RegretParams::cfr_plus(),
                "dcfr" => RegretParams::dcfr(),
                "dcfr_prune" => RegretParams::dcfr_prune(),
                _ => panic!("unknown preset {p}"),
            }),
            ParamSpec::Custom([a, b, g, w]) => Some(RegretParams::new(*a, *b, *g, *w)),
        }
    }

    /// the DOCUMENTED tuple (alpha, beta, gamma, no-positive weight) this denotes —
    /// written from the crate documentation, not read from the library
    pub fn documented(&self) -> [f64; 4] {
        let inf = f64::INFINITY;
        match self {
            ParamSpec::Default => [1.5, 0.0, 2.0, inf],
            ParamSpec::Preset(p) => match *p {
                "vanilla" => [inf, inf, 0.0, 0.0],
                "lcfr" => [1.0, 1.0, 1.0, inf],
                "cfr_plus" => [inf, -inf, 2.0, inf],
                "dcfr" => [1.5, 0.0, 2.0, inf],
                "dcfr_prune" => [1.5, 0.5, 2.0, inf],
                _ => panic!("unknown preset {p}"),
            },
            ParamSpec::Custom(x) => *x,
        }
    }

    pub fn name(&self) -> String {
        match self {
            ParamSpec::Default => "default".into(),
            ParamSpec::Preset(p) => p.to_string(),
            ParamSpec::Custom([a, b, g, w]) => format!("new({a},{b},{g},{w})"),
        }
    }

    pub fn to_json(&self) -> Value {
        match self {
            ParamSpec::Default => json!("default"),
            ParamSpec::Preset(p) => json!(p),
            ParamSpec::Custom(x) => json!({"new": x.iter().map(|v| fj(*v)).collect::<Vec<_>>()}),
        }
    }

    pub fn from_json(v: &Value) -> Result<ParamSpec, String> {
        match v {
            Value::String(s) if s == "default" => Ok(ParamSpec::Default),
            Value::String(s) => {
                PRESETS.iter().find(|p| **p == s).map(|p| ParamSpec::Preset(p)).ok_or(format!("unknown preset {s}"))
            }
            o => {
                let a = o["new"].as_array().ok_or("params.new")?;
                Ok(ParamSpec::Custom([jf(&a[0])?, jf(&a[1])?, jf(&a[2])?, jf(&a[3])?]))
            }
        }
    }
}

pub fn cores_json(c: &Cores) -> Value {
    match c {
        Cores::Real => json!("real"),
        Cores::Unknown => json!("unknown"),
        Cores::Count(n) => json!(n),
    }
}

pub fn cores_from(v: &Value) -> Result<Cores, String> {
    match v {
        Value::String(s) if s == "real" => Ok(Cores::Real),
        Value::String(s) if s == "unknown" => Ok(Cores::Unknown),
        Value::Number(n) => Ok(Cores::Count(n.as_u64().ok_or("cores")? as usize)),
        _ => Err("cores".into()),
    }
}

/// One library-level case: everything needed to repeat the run, game included.
#[derive(Clone, Debug)]
pub struct LibCase {
    pub game: MNode,
    pub shape: String,
    pub method: Method,
    pub params: ParamSpec,
    pub t: u64,
    pub thresh: f64,
    pub k: usize,
    pub cores: Cores,
    pub sampling_seed: u64,
    pub fail_build: bool,
    pub buggify: bool,
    pub sched: SchedSpec,
    pub extra: Value,
}

impl LibCase {
    pub fn to_json(&self) -> Value {
        json!({
            "game": self.game.to_json(),
            "shape": self.shape,
            "method": self.method.name(),
            "params": self.params.to_json(),
            "t": self.t.to_string(),
            "thresh": fj(self.thresh),
            "k": self.k.to_string(),
            "cores": cores_json(&self.cores),
            "sampling_seed": self.sampling_seed.to_string(),
            "fail_build": self.fail_build,
            "buggify": self.buggify,
            "sched": self.sched.to_json(),
            "extra": self.extra,
        })
    }

    pub fn from_json(v: &Value) -> Result<LibCase, String> {
        let s = |k: &str| v[k].as_str().ok_or_else(|| format!("missing {k}"));
        Ok(LibCase {
            game: MNode::from_json(&v["game"])?,
            shape: s("shape")?.to_string(),
            method: Method::from_name(s("method")?)?,
            params: ParamSpec::from_json(&v["params"])?,
            t: s("t")?.parse().map_err(|e| format!("t: {e}"))?,
            thresh: jf(&v["thresh"])?,
            k: s("k")?.parse().map_err(|e| format!("k: {e}"))?,
            cores: cores_from(&v["cores"])?,
            sampling_seed: s("sampling_seed")?.parse().map_err(|e| format!("sampling_seed: {e}"))?,
            fail_build: v["fail_build"].as_bool().unwrap_or(false),
            buggify: v["buggify"].as_bool().unwrap_or(true),
            sched: SchedSpec::from_json(&v["sched"])?,
            extra: v["extra"].clone(),
        })
    }

    /// short description for evidence samples (no tree)
    pub fn summary(&self) -> Value {
        let st = self.game.stats();
        json!({
            "shape": self.shape, "nodes": st.nodes, "infosets": st.infosets, "max_actions": st.max_actions,
            "game_hash": format!("{:016x}", self.game.hash()),
            "method": self.method.name(), "params": self.params.name(), "t": self.t, "thresh": self.thresh,
            "k": self.k.to_string(), "cores": cores_json(&self.cores), "fail_build": self.fail_build,
            "sched": match &self.sched.policy { crate::sched::Policy::Random => "random".to_string(), crate::sched::Policy::Pct{changes,..} => format!("pct{changes}"), crate::sched::Policy::NoPreempt => "nopreempt".into(), crate::sched::Policy::Replay => "replay".into() },
            "extra": self.extra,
        })
    }

    pub fn config_hash(&self) -> u64 {
        let mut h = Fnv::default();
        h.u64(self.game.hash());
        h.str(self.method.name());
        h.str(&self.params.name());
        h.u64(self.t);
        h.f64(self.thresh);
        h.u64(self.k as u64);
        h.u64(self.sampling_seed);
        h.str(&self.extra.to_string());
        h.finish()
    }
}

#[derive(Clone, Debug)]
pub struct Violation {
    /// coarse, stable class (used for minimisation and known-finding matching)
    pub class: String,
    /// structural signature for known-finding matching (may be empty)
    pub sig: String,
    pub message: String,
}

#[derive(Clone, Debug)]
pub enum Verdict {
    Pass,
    /// run produced no verdict (e.g. ill-conditioned); reason is counted
    Skip(&'static str),
    Violation(Violation),
    /// the harness's own assumptions or oracles failed their self-check: exit 2, never a verdict
    Harness(String),
}

/// What one run reports back to the driver.
#[derive(Clone, Debug, Default)]
pub struct Metrics {
    /// summed over runs (fault kinds fired, probes hit, executions, scheduling steps ...)
    pub counters: BTreeMap<&'static str, u64>,
    /// maximum over runs (observed numeric deviations, ratios ...)
    pub maxes: BTreeMap<&'static str, f64>,
    /// hashes of the scheduler-decision sequences of the simulated executions of this run
    pub interleavings: Vec<u64>,
    /// key of this run if it is non-trivial by the check's rule
    pub nontrivial_key: Option<u64>,
    pub game_hash: u64,
    /// hash over everything observable about the run (decisions, events, result bits, verdict)
    pub log_hash: u64,
    /// per-run records kept for population-level oracles: (cell key, value)
    pub records: Vec<(String, f64)>,
}

impl Metrics {
    pub fn add(&mut self, k: &'static str, v: u64) {
        *self.counters.entry(k).or_insert(0) += v;
    }
    pub fn max(&mut self, k: &'static str, v: f64) {
        let e = self.maxes.entry(k).or_insert(f64::NEG_INFINITY);
        if v > *e {
            *e = v;
        }
    }
}

pub struct RunOut {
    pub verdict: Verdict,
    pub metrics: Metrics,
    /// the schedule traces actually taken (for replay files), one per simulated execution
    pub traces: Vec<crate::sched::Trace>,
}

pub fn viol(class: impl Into<String>, sig: impl Into<String>, message: impl Into<String>) -> Verdict {
    Verdict::Violation(Violation { class: class.into(), sig: sig.into(), message: message.into() })
}

/// the `Prop` methods that are identical for every check whose case type is `LibCase`
#[macro_export]
macro_rules! lib_case_boilerplate {
    () => {
        fn case_to_json(&self, c: &LibCase) -> serde_json::Value {
            c.to_json()
        }
        fn case_from_json(&self, v: &serde_json::Value) -> Result<LibCase, String> {
            LibCase::from_json(v)
        }
        fn summary(&self, c: &LibCase) -> serde_json::Value {
            c.summary()
        }
        fn with_replay(&self, c: &LibCase, traces: &[$crate::sched::Trace]) -> LibCase {
            let mut n = c.clone();
            if let Some(t) = traces.first() {
                n.sched = $crate::sched::SchedSpec::replay(t.clone());
            }
            n
        }
        fn with_sched_seed(&self, c: &LibCase, seed: Option<u64>) -> LibCase {
            let mut n = c.clone();
            n.sched = match seed {
                None => $crate::sched::SchedSpec::nopreempt(),
                Some(s) => $crate::sched::SchedSpec::random(s),
            };
            n
        }
    };
}

/// finish a run: fold the verdict into the log hash
pub fn finish(mut m: Metrics, mut h: crate::rng::Fnv, v: Verdict, traces: Vec<crate::sched::Trace>) -> RunOut {
    match &v {
        Verdict::Violation(x) => h.str(&x.class),
        Verdict::Skip(r) => h.str(r),
        Verdict::Harness(e) => h.str(e),
        Verdict::Pass => h.str("pass"),
    }
    m.log_hash = h.finish();
    RunOut { verdict: v, metrics: m, traces }
}
