//! The harness's own PRNG (SplitMix64). Every choice of a run derives from one seed.

#[derive(Clone, Debug)]
pub struct Rng(pub u64);

pub fn mix(a: u64, b: u64) -> u64 {
    let mut r = Rng(a ^ b.wrapping_mul(0x9FB21C651E98DF25).rotate_left(17));
    r.next();
    r.next()
}

impl Rng {
    pub fn new(seed: u64) -> Self {
        let mut r = Rng(seed);
        r.next();
        r
    }

    #[inline]
    pub fn next(&mut self) -> u64 {
        self.0 = self.0.wrapping_add(0x9E3779B97F4A7C15);
        let mut z = self.0;
        z = (z ^ (z >> 30)).wrapping_mul(0xBF58476D1CE4E5B9);
        z = (z ^ (z >> 27)).wrapping_mul(0x94D049BB133111EB);
        z ^ (z >> 31)
    }

    /// uniform in [0, 1)
    pub fn f(&mut self) -> f64 {
        (self.next() >> 11) as f64 / (1u64 << 53) as f64
    }

    /// uniform in 0..n (n > 0)
    pub fn below(&mut self, n: u64) -> u64 {
        self.next() % n
    }

    pub fn usize_in(&mut self, lo: usize, hi_incl: usize) -> usize {
        lo + self.below((hi_incl - lo + 1) as u64) as usize
    }

    pub fn coin(&mut self, p: f64) -> bool {
        self.f() < p
    }

    pub fn pick<'a, T>(&mut self, xs: &'a [T]) -> &'a T {
        &xs[self.below(xs.len() as u64) as usize]
    }

    pub fn fork(&mut self) -> Rng {
        Rng::new(self.next())
    }
}

/// FNV-1a over bytes, for content hashes (not security relevant)
#[derive(Clone, Copy)]
pub struct Fnv(pub u64);

impl Default for Fnv {
    fn default() -> Self {
        Fnv(0xcbf29ce484222325)
    }
}

impl Fnv {
    pub fn bytes(&mut self, b: &[u8]) {
        for x in b {
            self.0 ^= *x as u64;
            self.0 = self.0.wrapping_mul(0x100000001b3);
        }
    }
    pub fn u64(&mut self, x: u64) {
        self.bytes(&x.to_le_bytes())
    }
    pub fn f64(&mut self, x: f64) {
        self.u64(x.to_bits())
    }
    pub fn str(&mut self, s: &str) {
        self.u64(s.len() as u64);
        self.bytes(s.as_bytes())
    }
    pub fn finish(&self) -> u64 {
        mix(self.0, 0x1234567)
    }
}
