//! Shrink candidates for library-level cases (used by the minimiser).
use crate::common::{LibCase, ParamSpec};
use crate::model::MNode;

fn first_leaf(n: &MNode) -> f64 {
    match n {
        MNode::T(x) => *x,
        MNode::C { outs, .. } => first_leaf(&outs[0].2),
        MNode::P { acts, .. } => first_leaf(&acts[0].1),
    }
}

/// replace the internal node with preorder index `target` by a leaf
fn cut(n: &MNode, target: usize, counter: &mut usize) -> MNode {
    let me = *counter;
    *counter += 1;
    match n {
        MNode::T(x) => MNode::T(*x),
        _ if me == target => MNode::T(first_leaf(n)),
        MNode::C { info, outs } => MNode::C {
            info: info.clone(),
            outs: outs.iter().map(|(a, w, c)| (a.clone(), *w, cut(c, target, counter))).collect(),
        },
        MNode::P { player, info, acts } => MNode::P {
            player: *player,
            info: info.clone(),
            acts: acts.iter().map(|(a, c)| (a.clone(), cut(c, target, counter))).collect(),
        },
    }
}

fn internal_nodes(n: &MNode, counter: &mut usize, out: &mut Vec<(usize, usize)>) {
    let me = *counter;
    *counter += 1;
    match n {
        MNode::T(_) => {}
        MNode::C { outs, .. } => {
            out.push((me, n.count_nodes()));
            outs.iter().for_each(|(_, _, c)| internal_nodes(c, counter, out));
        }
        MNode::P { acts, .. } => {
            out.push((me, n.count_nodes()));
            acts.iter().for_each(|(_, c)| internal_nodes(c, counter, out));
        }
    }
}

/// drop action `which` at every node of infoset (player, info)
fn drop_action(n: &MNode, player: usize, info: &str, which: usize) -> MNode {
    match n {
        MNode::T(x) => MNode::T(*x),
        MNode::C { info: ci, outs } => MNode::C {
            info: ci.clone(),
            outs: outs.iter().map(|(a, w, c)| (a.clone(), *w, drop_action(c, player, info, which))).collect(),
        },
        MNode::P { player: p, info: i, acts } => {
            let keep: Vec<(String, MNode)> = acts
                .iter()
                .enumerate()
                .filter(|(k, _)| !(*p == player && i == info && *k == which && acts.len() > 1))
                .map(|(_, (a, c))| (a.clone(), drop_action(c, player, info, which)))
                .collect();
            MNode::P { player: *p, info: i.clone(), acts: keep }
        }
    }
}

/// drop outcome `which` at every chance node with the same infoset name, or (unnamed) at
/// the chance node with preorder index `target`
fn drop_outcome(n: &MNode, name: &Option<String>, target: usize, which: usize, counter: &mut usize) -> MNode {
    let me = *counter;
    *counter += 1;
    match n {
        MNode::T(x) => MNode::T(*x),
        MNode::C { info, outs } => {
            let hit = match name {
                Some(_) => info == name,
                None => me == target,
            };
            let outs2: Vec<(String, f64, MNode)> = outs
                .iter()
                .enumerate()
                .filter(|(k, _)| !(hit && *k == which && outs.len() > 1))
                .map(|(_, (a, w, c))| (a.clone(), *w, drop_outcome(c, name, target, which, counter)))
                .collect();
            MNode::C { info: info.clone(), outs: outs2 }
        }
        MNode::P { player, info, acts } => MNode::P {
            player: *player,
            info: info.clone(),
            acts: acts.iter().map(|(a, c)| (a.clone(), drop_outcome(c, name, target, which, counter))).collect(),
        },
    }
}

fn chance_nodes(n: &MNode, counter: &mut usize, out: &mut Vec<(usize, Option<String>, usize)>) {
    let me = *counter;
    *counter += 1;
    match n {
        MNode::T(_) => {}
        MNode::C { info, outs } => {
            if outs.len() > 1 {
                out.push((me, info.clone(), outs.len()));
            }
            outs.iter().for_each(|(_, _, c)| chance_nodes(c, counter, out));
        }
        MNode::P { acts, .. } => acts.iter().for_each(|(_, c)| chance_nodes(c, counter, out)),
    }
}

pub fn shrink_tree(g: &MNode) -> Vec<MNode> {
    let mut res = vec![];
    // cut subtrees, biggest first (skip the root)
    let mut internals = vec![];
    internal_nodes(g, &mut 0, &mut internals);
    internals.retain(|(i, _)| *i != 0);
    internals.sort_by_key(|(_, sz)| std::cmp::Reverse(*sz));
    for (i, _) in internals.iter().take(40) {
        res.push(cut(g, *i, &mut 0));
    }
    // drop actions consistently
    let infos = g.infosets();
    for p in 0..2 {
        for (name, acts) in &infos[p] {
            if acts.len() > 1 {
                for k in (0..acts.len()).rev() {
                    res.push(drop_action(g, p, name, k));
                }
            }
        }
    }
    // drop chance outcomes
    let mut cn = vec![];
    chance_nodes(g, &mut 0, &mut cn);
    let mut seen = std::collections::BTreeSet::new();
    for (i, name, n) in cn {
        if let Some(nm) = &name {
            if !seen.insert(nm.clone()) {
                continue;
            }
        }
        for k in (0..n).rev() {
            res.push(drop_outcome(g, &name, i, k, &mut 0));
        }
    }
    // round payoffs
    let rounded = g.map_payoffs(&mut |x| (x * 8.0).round() / 8.0);
    if &rounded != g {
        res.push(rounded);
    }
    res.truncate(200);
    res
}

pub fn shrink_lib_case(c: &LibCase) -> Vec<LibCase> {
    let mut res = vec![];
    let mut push = |f: &dyn Fn(&mut LibCase)| {
        let mut n = c.clone();
        f(&mut n);
        res.push(n);
    };
    if c.k > 2 && c.k <= 64 {
        push(&|n| n.k = 2);
        push(&|n| n.k -= 1);
    }
    if c.t > 1 {
        push(&|n| n.t /= 2);
        push(&|n| n.t -= 1);
    }
    if c.params != ParamSpec::Preset("vanilla") {
        push(&|n| n.params = ParamSpec::Preset("vanilla"));
    }
    if c.thresh != 0.0 {
        push(&|n| n.thresh = 0.0);
    }
    if c.buggify {
        push(&|n| n.buggify = false);
    }
    if c.fail_build {
        push(&|n| n.fail_build = false);
    }
    if c.cores != cfr_verif_seam::Cores::Real {
        push(&|n| n.cores = cfr_verif_seam::Cores::Real);
    }
    for g in shrink_tree(&c.game) {
        let mut n = c.clone();
        n.game = g;
        res.push(n);
    }
    res
}
