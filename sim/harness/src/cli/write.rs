//! The harness's own writers for the two input formats of the binary: the JSON DSL and
//! Gambit `.efg`, using the freedom the formats give (unsorted maps / action lists, optional
//! fields, rational or decimal probabilities, interior payoffs, shared outcomes, unnamed
//! infosets, constant sums != 0). Payoffs are carried as integers in thousandths so that
//! every number written is an exact short decimal.
use crate::model::MNode;
use crate::rng::Rng;
use std::collections::BTreeMap;
use std::fmt::Write;

pub fn milli(x: f64) -> i128 {
    (x * 1000.0).round() as i128
}

/// exact decimal rendering of thousandths
pub fn dec(m: i128) -> String {
    let sign = if m < 0 { "-" } else { "" };
    let a = m.abs();
    if a % 1000 == 0 {
        format!("{sign}{}", a / 1000)
    } else {
        let s = format!("{sign}{}.{:03}", a / 1000, a % 1000);
        s.trim_end_matches('0').to_string()
    }
}

fn esc(s: &str) -> String {
    s.replace('\\', "\\\\").replace('"', "\\\"")
}

// ------------------------------------------------------------------------------- JSON DSL

pub struct JsonStyle {
    pub shuffle: bool,
    pub pretty: bool,
    pub null_infoset: bool,
    /// whitespace before the first brace (legal JSON)
    pub leading: &'static str,
    /// numbers in other legal spellings of the same value (exponents, trailing zeros)
    pub spell: bool,
    /// chance weights are relative: small integer weights may be written at another scale
    /// (subnormal, tiny or huge, e.g. `3e-310`)
    pub weight_suffix: &'static str,
}

impl JsonStyle {
    pub fn random(r: &mut Rng) -> Self {
        JsonStyle { shuffle: r.coin(0.5), pretty: r.coin(0.3), null_infoset: r.coin(0.3), leading: *r.pick(&["", "", "", "\n", "  ", "\t", "\r\n", "\n\n  "]), spell: r.coin(0.3), weight_suffix: *r.pick(&["", "", "", "", "", "", "e-310", "e-310", "e-300", "e300"]) }
    }
    pub fn plain() -> Self {
        JsonStyle { shuffle: false, pretty: false, null_infoset: false, leading: "", spell: false, weight_suffix: "" }
    }
}

fn num(x: f64) -> String {
    // payoffs / weights of CLI games are exact short decimals
    let m = milli(x);
    if (m as f64 / 1000.0 - x).abs() < 1e-12 {
        dec(m)
    } else {
        format!("{x}")
    }
}

/// another JSON spelling of the same short decimal (the choice depends on the value only)
fn num_s(x: f64, st: &JsonStyle) -> String {
    let m = milli(x);
    if !st.spell || (m as f64 / 1000.0 - x).abs() >= 1e-12 || m.unsigned_abs() > 1u128 << 50 {
        return num(x);
    }
    match m.unsigned_abs() % 6 {
        0 => format!("{m}e-3"),
        1 => format!("{}e0", dec(m)),
        2 => format!("{}E-1", dec(m * 10)),
        3 if m % 1000 == 0 => format!("{}.0", m / 1000),
        3 => format!("{}0", dec(m)),
        4 => format!("{}E+0", dec(m)),
        _ => dec(m),
    }
}

pub fn to_json_dsl(n: &MNode, r: &mut Rng, st: &JsonStyle) -> String {
    let mut s = String::from(st.leading);
    json_node(n, r, st, 0, &mut s);
    s.push('\n');
    s
}

fn nl(st: &JsonStyle, depth: usize, s: &mut String) {
    if st.pretty {
        s.push('\n');
        for _ in 0..depth {
            s.push_str("  ");
        }
    }
}

fn json_node(n: &MNode, r: &mut Rng, st: &JsonStyle, d: usize, s: &mut String) {
    match n {
        MNode::T(x) => {
            let _ = write!(s, "{{\"terminal\": {}}}", num_s(*x, st));
        }
        MNode::C { info, outs } => {
            s.push_str("{\"chance\": {");
            match info {
                Some(i) => {
                    let _ = write!(s, "\"infoset\": \"{}\", ", esc(i));
                }
                None => {
                    if st.null_infoset {
                        s.push_str("\"infoset\": null, ");
                    }
                }
            }
            s.push_str("\"outcomes\": {");
            let mut order: Vec<usize> = (0..outs.len()).collect();
            if st.shuffle {
                for i in (1..order.len()).rev() {
                    let j = r.below(i as u64 + 1) as usize;
                    order.swap(i, j);
                }
            }
            for (k, i) in order.iter().enumerate() {
                let (name, w, c) = &outs[*i];
                if k > 0 {
                    s.push_str(", ");
                }
                nl(st, d + 1, s);
                let small_ints = outs.iter().all(|(_, w, _)| *w >= 1.0 && *w <= 999.0 && w.fract() == 0.0);
                let wtxt = if small_ints && !st.weight_suffix.is_empty() { format!("{}{}", *w as u64, st.weight_suffix) } else { num_s(*w, st) };
                let _ = write!(s, "\"{}\": {{\"prob\": {}, \"state\": ", esc(name), wtxt);
                json_node(c, r, st, d + 1, s);
                s.push('}');
            }
            nl(st, d, s);
            s.push_str("}}}");
        }
        MNode::P { player, info, acts } => {
            let _ = write!(s, "{{\"player\": {{\"player_one\": {}, \"infoset\": \"{}\", \"actions\": {{", *player == 0, esc(info));
            let mut order: Vec<usize> = (0..acts.len()).collect();
            if st.shuffle {
                for i in (1..order.len()).rev() {
                    let j = r.below(i as u64 + 1) as usize;
                    order.swap(i, j);
                }
            }
            for (k, i) in order.iter().enumerate() {
                let (name, c) = &acts[*i];
                if k > 0 {
                    s.push_str(", ");
                }
                nl(st, d + 1, s);
                let _ = write!(s, "\"{}\": ", esc(name));
                json_node(c, r, st, d + 1, s);
            }
            nl(st, d, s);
            s.push_str("}}}");
        }
    }
}

// ------------------------------------------------------------------------------- Gambit

#[derive(Clone, Debug)]
pub struct EfgStyle {
    /// constant C with one + two = C, in thousandths
    pub constant_milli: i64,
    pub p_unnamed: f64,
    pub name_first_only: bool,
    pub shuffle_actions: bool,
    pub p_interior_payoff: f64,
    pub share_outcomes: bool,
    pub decimal_probs: bool,
    pub commas: bool,
    /// constant-sum error (thousandths) added to player two's payoff at some leaves, kept
    /// inside the documented 0.1 % tolerance
    pub slack_milli: i64,
    pub comment: bool,
    /// interior outcomes are zero-sum increments only
    pub zero_sum_only: bool,
    /// every chance action is called "" (where the node's probabilities are pairwise distinct)
    pub anonymous_chance_actions: bool,
    /// different chance infosets carry the same display name
    pub one_chance_name: bool,
    /// first chance infoset number (0 is legal and is an infoset like any other)
    pub chance_base: u64,
    /// numbers in other legal spellings of the same value ("+3", "3.", ".5", "1500e-3",
    /// "3/2", "1.5E+0", "0001.500")
    pub spell: bool,
    /// with `spell`: some numbers are written with more than 308 digits
    pub long_digits: bool,
    /// lines end in CR LF (nothing is appended: C16 / C17 cut files a few bytes before the end
    /// and expect the rest to be incomplete)
    pub crlf: bool,
}

impl EfgStyle {
    /// For games with payoffs of very different magnitudes (lotteries): the reader folds the
    /// two players' payoffs into one zero-sum number in floating point, which is exact only
    /// while every written pair is an exact negation; so constant 0, no tolerance slack, and
    /// interior outcomes zero-sum.
    pub fn exact_zero_sum(mut self) -> Self {
        self.constant_milli = 0;
        self.slack_milli = 0;
        self.zero_sum_only = true;
        self
    }
}

impl EfgStyle {
    pub fn random(r: &mut Rng) -> Self {
        EfgStyle {
            constant_milli: *r.pick(&[0i64, 0, 1000, 4000, -3000, 10_000, 500]),
            p_unnamed: if r.coin(0.5) { 0.0 } else { 0.4 },
            name_first_only: r.coin(0.5),
            shuffle_actions: r.coin(0.5),
            p_interior_payoff: if r.coin(0.5) { 0.0 } else { 0.3 },
            share_outcomes: r.coin(0.5),
            decimal_probs: r.coin(0.5),
            commas: r.coin(0.5),
            slack_milli: if r.coin(0.15) { 1 } else { 0 },
            comment: r.coin(0.3),
            zero_sum_only: false,
            anonymous_chance_actions: r.coin(0.25),
            one_chance_name: r.coin(0.25),
            chance_base: *r.pick(&[0u64, 0, 1, 1, 7]),
            spell: r.coin(0.3),
            long_digits: r.coin(0.3),
            crlf: r.coin(0.15),
        }
    }
    pub fn plain() -> Self {
        EfgStyle {
            constant_milli: 0,
            p_unnamed: 0.0,
            name_first_only: false,
            shuffle_actions: false,
            p_interior_payoff: 0.0,
            share_outcomes: false,
            decimal_probs: false,
            commas: true,
            slack_milli: 0,
            comment: false,
            zero_sum_only: false,
            anonymous_chance_actions: false,
            one_chance_name: false,
            chance_base: 1,
            spell: false,
            long_digits: false,
            crlf: false,
        }
    }
}

#[derive(Clone, Debug, Default)]
pub struct EfgWritten {
    pub text: String,
    /// model infoset name -> the name the binary will print
    pub names: [BTreeMap<String, String>; 2],
    pub constant: f64,
    /// largest deviation of one + two from the constant (0 for exact constant-sum files)
    pub slack: f64,
}

struct EfgW<'a> {
    r: &'a mut Rng,
    st: &'a EfgStyle,
    out: String,
    info_num: [BTreeMap<String, u64>; 2],
    info_named: [BTreeMap<String, bool>; 2],
    info_name_written: [BTreeMap<String, bool>; 2],
    chance_num: BTreeMap<String, u64>,
    next_chance: u64,
    /// chance infoset numbers start here (Gambit's own files start at 1; 0 is legal too)
    chance_base: u64,
    /// every infoset name of the model, per player
    all_names: [std::collections::BTreeSet<String>; 2],
    /// display name chosen for each chance infoset number
    chance_label: BTreeMap<u64, Option<String>>,
    next_outcome: u64,
    shared: BTreeMap<(i128, i128), u64>,
    used_slack: i64,
    slack_ok: bool,
    /// outcomes whose payoffs are written somewhere and are a zero-sum increment (a, -a): an
    /// interior node may refer to one of them by number only
    reusable: Vec<(u64, i128, i128)>,
    /// outcomes referred to by number only so far; their payoffs are still to be written at a
    /// later node (definition after use)
    pending: Vec<(u64, i128, i128)>,
}

/// another .efg spelling of the same number of thousandths (the choice depends on the value only)
fn spell_efg(m: i128) -> String {
    let sign = if m < 0 { "-" } else { "" };
    let a = m.unsigned_abs();
    if a > 1u128 << 100 {
        return dec(m);
    }
    match a % 8 {
        0 => format!("{m}e-3"),
        1 => format!("{m}/1000"),
        2 if m >= 0 => format!("+{}", dec(m)),
        3 if a % 1000 == 0 => format!("{sign}{}.", a / 1000),
        3 if a < 1000 => format!("{sign}.{}", format!("{:03}", a).trim_end_matches('0')),
        4 => format!("{}E+0", dec(m)),
        5 => format!("{sign}000{}.{:03}", a / 1000, a % 1000),
        6 => format!("{}/{}", dec(m * 3), "3.0"),
        // more than 308 digits, numerator and denominator without a common factor: the value is
        // the same double (x + 1e-330 rounds to x)
        7 if a % 1000 != 0 => format!("{sign}{}.{:03}{}1", a / 1000, a % 1000, "0".repeat(326)),
        _ => dec(m),
    }
}

/// two finite decimals p and q = 1 - p, respelled with 330 digits as p + 1e-330 and q - 1e-330
/// (still exactly one in total, still the same doubles)
fn long_pair(p: &str, q: &str) -> Option<(String, String)> {
    let (pf, qf) = (p.strip_prefix("0.")?, q.strip_prefix("0.")?);
    if !pf.bytes().all(|b| b.is_ascii_digit()) || !qf.bytes().all(|b| b.is_ascii_digit()) {
        return None;
    }
    let qf = qf.trim_end_matches('0');
    let last = qf.bytes().last()?;
    let p2 = format!("0.{}{}1", pf, "0".repeat(329 - pf.len()));
    let q2 = format!("0.{}{}{}", &qf[..qf.len() - 1], (last - 1) as char, "9".repeat(330 - qf.len()));
    Some((p2, q2))
}

/// another spelling of a probability string written by `prob_strings`
fn spell_prob(p: &str, k: usize) -> String {
    match (p.split_once('/'), k % 4) {
        (Some((n, d)), 0) => format!("{n}.0/{d}"),
        (Some((n, d)), 1) => format!("+{n}e0/{d}"),
        (Some((n, d)), 2) => format!("{n}/{d}.00"),
        (None, 0) if p.starts_with("0.") => p[1..].to_string(),
        (None, 1) => format!("+{p}"),
        (None, 2) if p.contains('.') => format!("{p}0e0"),
        _ => p.to_string(),
    }
}

fn is_2_5_smooth(mut n: u64) -> bool {
    if n == 0 {
        return false;
    }
    while n % 2 == 0 {
        n /= 2;
    }
    while n % 5 == 0 {
        n /= 5;
    }
    n == 1
}

fn prob_strings(weights: &[f64], decimal: bool) -> Vec<String> {
    // CLI games carry small integer weights; anything else is approximated to thousandths
    // with the last entry taking the remainder so that the sum is exactly one
    if weights.iter().any(|w| *w == 0.0) {
        // (invalid on purpose, C17) a zero-probability outcome next to a proper distribution
        let rest: Vec<f64> = weights.iter().cloned().filter(|w| *w != 0.0).collect();
        let mut it = prob_strings(&rest, decimal).into_iter();
        return weights.iter().map(|w| if *w == 0.0 { "0".to_string() } else { it.next().unwrap() }).collect();
    }
    let ints: Vec<u64> = weights.iter().map(|w| w.round() as u64).collect();
    let all_int = weights.iter().zip(&ints).all(|(w, i)| (*w - *i as f64).abs() < 1e-12 && *i > 0);
    if all_int {
        let tot: u64 = ints.iter().sum();
        if decimal && is_2_5_smooth(tot) {
            // exact finite decimals
            let mut scale = 1u64;
            while scale % tot != 0 {
                scale *= 10;
            }
            let digits = (scale as f64).log10().round() as usize;
            return ints
                .iter()
                .map(|i| {
                    let v = i * (scale / tot);
                    if v == scale {
                        "1".to_string()
                    } else {
                        format!("0.{:0width$}", v, width = digits)
                    }
                })
                .collect();
        }
        return ints.iter().map(|i| if *i == tot { "1".to_string() } else { format!("{i}/{tot}") }).collect();
    }
    let tot: f64 = weights.iter().sum();
    let mut m: Vec<i64> = weights.iter().map(|w| ((w / tot) * 1000.0).round().max(1.0) as i64).collect();
    let s: i64 = m.iter().sum();
    let last = m.len() - 1;
    m[last] += 1000 - s;
    m.iter().map(|v| format!("{v}/1000")).collect()
}

impl EfgW<'_> {
    fn payoffs(&self, a: i128, b: i128) -> String {
        if self.st.spell {
            let sep = if self.st.commas { ", " } else { " " };
            let sp = |m: i128| if !self.st.long_digits && m.unsigned_abs() % 8 == 7 { dec(m) } else { spell_efg(m) };
            return format!("{{ {}{sep}{} }}", sp(a), sp(b));
        }
        if self.st.commas {
            format!("{{ {}, {} }}", dec(a), dec(b))
        } else {
            format!("{{ {} {} }}", dec(a), dec(b))
        }
    }

    /// `carry`: what interior outcomes above have already paid to player one and to player two
    /// (thousandths); interior outcomes need not be zero-sum, the leaves compensate
    fn node(&mut self, n: &MNode, carry: (i128, i128)) {
        match n {
            MNode::T(x) => {
                let total_one = milli(*x) + (self.st.constant_milli / 2) as i128;
                let one = total_one - carry.0;
                let mut two = self.st.constant_milli as i128 - total_one - carry.1;
                let mut slack_here = false;
                if self.slack_ok && self.st.slack_milli != 0 && self.r.coin(0.5) {
                    two += self.st.slack_milli as i128;
                    self.used_slack = self.st.slack_milli;
                    slack_here = true;
                }
                let num = if self.st.share_outcomes {
                    let next = &mut self.next_outcome;
                    *self.shared.entry((one, two)).or_insert_with(|| {
                        *next += 1;
                        *next
                    })
                } else {
                    self.next_outcome += 1;
                    self.next_outcome
                };
                let name = if self.r.coin(0.3) { format!(" \"o{num}\"") } else { String::new() };
                if self.st.share_outcomes && !slack_here && one.abs() <= 4000 && two.abs() <= 4000 && !self.reusable.iter().any(|(n, _, _)| *n == num) {
                    // a terminal outcome can be referred to by number at an interior node
                    self.reusable.push((num, one, two));
                }
                let p = self.payoffs(one, two);
                let _ = writeln!(self.out, "t \"\" {num}{name} {p}");
            }
            MNode::C { info, outs } => {
                let num = match info {
                    Some(i) => {
                        let next = &mut self.next_chance;
                        let base = self.chance_base;
                        *self.chance_num.entry(i.clone()).or_insert_with(|| {
                            *next += 1;
                            base + *next - 1
                        })
                    }
                    None => {
                        self.next_chance += 1;
                        self.chance_base + self.next_chance - 1
                    }
                };
                let weights: Vec<f64> = outs.iter().map(|(_, w, _)| *w).collect();
                let probs = prob_strings(&weights, self.st.decimal_probs);
                let mut order: Vec<usize> = (0..outs.len()).collect();
                if self.st.shuffle_actions {
                    for i in (1..order.len()).rev() {
                        let j = self.r.below(i as u64 + 1) as usize;
                        order.swap(i, j);
                    }
                }
                // chance actions may all carry the same (empty) name — names are labels; only done
                // where the probabilities are pairwise distinct, so that the node is unambiguous
                let distinct = (0..probs.len()).all(|a| (0..a).all(|b| probs[a] != probs[b]));
                let probs: Vec<String> = match (self.st.spell, self.st.decimal_probs && probs.len() == 2, self.st.long_digits) {
                    (true, true, true) => match long_pair(&probs[0], &probs[1]) {
                        Some((a, b)) => vec![a, b],
                        None => probs,
                    },
                    (true, _, _) => probs.iter().enumerate().map(|(k, p)| spell_prob(p, k + weights.len())).collect(),
                    _ => probs,
                };
                let anon_outs = self.st.anonymous_chance_actions && distinct;
                let list: Vec<String> = order.iter().map(|i| format!("\"{}\" {}", if anon_outs { String::new() } else { esc(&outs[*i].0) }, probs[*i])).collect();
                let (oc, add) = self.interior();
                let carry = (carry.0 + add.0, carry.1 + add.1);
                // an infoset's name is a label too: different chance infosets may share one
                // (one name per infoset number: the parser insists that an infoset's name, where it
                // is written, is always the same)
                let label = if self.st.one_chance_name {
                    let coin = self.r.coin(0.7);
                    self.chance_label.entry(num).or_insert_with(|| if coin { Some("deal".to_string()) } else { info.clone() }).clone()
                } else {
                    info.clone()
                };
                let iname = match label {
                    Some(i) if self.r.coin(0.5) => format!(" \"{}\"", esc(&i)),
                    _ => String::new(),
                };
                let _ = writeln!(self.out, "c \"\" {num}{iname} {{ {} }} {oc}", list.join(" "));
                for i in order {
                    self.node(&outs[i].2, carry);
                }
            }
            MNode::P { player, info, acts } => {
                let p = *player;
                if !self.info_num[p].contains_key(info) {
                    // sparse, shuffled numbers
                    let named = !self.r.coin(self.st.p_unnamed);
                    let mut num = self.r.below(40) + 1;
                    // an unnamed infoset is known by its number: that number must not be the
                    // name of another infoset of the same player (names are per player)
                    while self.info_num[p].values().any(|v| *v == num) || (!named && self.all_names[p].contains(&num.to_string())) {
                        num += 1;
                    }
                    self.info_num[p].insert(info.clone(), num);
                    self.info_named[p].insert(info.clone(), named);
                    self.info_name_written[p].insert(info.clone(), false);
                }
                let num = self.info_num[p][info];
                let named = self.info_named[p][info];
                let written = self.info_name_written[p][info];
                let iname = if named && (!written || !self.st.name_first_only) {
                    self.info_name_written[p].insert(info.clone(), true);
                    format!(" \"{}\"", esc(info))
                } else {
                    String::new()
                };
                let mut order: Vec<usize> = (0..acts.len()).collect();
                if self.st.shuffle_actions {
                    for i in (1..order.len()).rev() {
                        let j = self.r.below(i as u64 + 1) as usize;
                        order.swap(i, j);
                    }
                }
                let list: Vec<String> = order.iter().map(|i| format!("\"{}\"", esc(&acts[*i].0))).collect();
                let (oc, add) = self.interior();
                let carry = (carry.0 + add.0, carry.1 + add.1);
                let _ = writeln!(self.out, "p \"\" {} {num}{iname} {{ {} }} {oc}", p + 1, list.join(" "));
                for i in order {
                    self.node(&acts[i].1, carry);
                }
            }
        }
    }

    /// outcome clause of an interior node and what it pays to the two players (an "ante": not
    /// necessarily zero-sum; the file as a whole stays constant-sum)
    fn interior(&mut self) -> (String, (i128, i128)) {
        if self.r.coin(self.st.p_interior_payoff) {
            if self.st.share_outcomes {
                // by number only: the payoffs are written at another node (before or after this one)
                if !self.reusable.is_empty() && self.r.coin(0.35) {
                    let k = self.r.below(self.reusable.len() as u64) as usize;
                    let (num, a, b) = self.reusable[k];
                    return (format!("{num}"), (a, b));
                }
                if !self.pending.is_empty() && self.r.coin(0.6) {
                    let (num, a, b) = self.pending.remove(0);
                    self.reusable.push((num, a, b));
                    return (format!("{num} {}", self.payoffs(a, b)), (a, b));
                }
            }
            let a = ((self.r.below(17) as i64 - 8) * 125) as i128;
            // a third of the interior outcomes are not zero-sum (one player pays an ante)
            let b = if !self.st.zero_sum_only && self.r.coin(0.33) { -a + *self.r.pick(&[-1000i64, -250, 125, 500, 1000]) as i128 } else { -a };
            self.next_outcome += 1;
            let num = self.next_outcome;
            if self.st.share_outcomes && self.r.coin(0.25) {
                self.pending.push((num, a, b));
                return (format!("{num}@@P{num}@@"), (a, b));
            }
            self.reusable.push((num, a, b));
            (format!("{num} {}", self.payoffs(a, b)), (a, b))
        } else {
            ("0".to_string(), (0, 0))
        }
    }
}

pub fn to_efg(model: &MNode, r: &mut Rng, st: &EfgStyle) -> EfgWritten {
    let stats = model.stats();
    let range_milli = (milli(stats.max_pay) - milli(stats.min_pay)) as f64;
    // (max - min of the half sums) * 1000 <= range of player one's payoffs
    let slack_ok = st.slack_milli != 0 && (st.slack_milli as f64 / 2.0) * 1000.0 <= range_milli * 0.5;
    let mut w = EfgW {
        r,
        st,
        out: String::new(),
        info_num: Default::default(),
        info_named: Default::default(),
        info_name_written: Default::default(),
        chance_num: BTreeMap::new(),
        next_chance: 0,
        chance_base: st.chance_base,
        chance_label: BTreeMap::new(),
        all_names: {
            let i = model.infosets();
            [i[0].keys().cloned().collect(), i[1].keys().cloned().collect()]
        },
        next_outcome: 0,
        shared: BTreeMap::new(),
        used_slack: 0,
        slack_ok,
        reusable: vec![],
        pending: vec![],
    };
    let _ = writeln!(w.out, "EFG 2 R \"generated\" {{ \"one\" \"two\" }}");
    if st.comment {
        let _ = writeln!(w.out, "\"a comment\"");
    }
    w.node(model, (0, 0));
    // outcomes used by number whose payoffs were never written later: write them at the use
    let pending = std::mem::take(&mut w.pending);
    for (num, a, b) in pending {
        let marker = format!("@@P{num}@@");
        let pay = format!(" {}", w.payoffs(a, b));
        w.out = w.out.replacen(&marker, &pay, 1);
    }
    while let Some(i) = w.out.find("@@P") {
        let j = w.out[i + 3..].find("@@").map(|j| i + 3 + j + 2).unwrap_or(w.out.len());
        w.out.replace_range(i..j, "");
    }
    let mut names: [BTreeMap<String, String>; 2] = Default::default();
    for p in 0..2 {
        for (info, num) in &w.info_num[p] {
            let cli = if w.info_named[p][info] { info.clone() } else { num.to_string() };
            names[p].insert(info.clone(), cli);
        }
    }
    if st.crlf {
        w.out = w.out.replace('\n', "\r\n");
    }
    EfgWritten { text: w.out, names, constant: st.constant_milli as f64 / 1000.0, slack: w.used_slack as f64 / 1000.0 }
}
