//! Reader faithfulness as a structural statement: the compact game the binary's reader builds
//! from a file is the model game the file was written from — same tree (after the documented
//! collapse of single-outcome chance nodes and single-action decision nodes), same payoffs,
//! same infoset names and action names, same chance probabilities, and the SAME PARTITION of
//! chance nodes into chance infosets (two model chance nodes share an infoset iff the parsed
//! ones do). Chance outcomes carry no names in the compact game, so their order is matched by
//! backtracking over the (at most 3!) permutations whose probabilities fit.
use crate::model::MNode;
use cfr_verif_seam::{Dump, DumpNode};
use std::collections::BTreeMap;

#[derive(Clone, Debug, PartialEq, Eq, PartialOrd, Ord)]
enum ChanceKey {
    Named(String),
    /// an unnamed model chance node is its own infoset; identified by its position (pre-order path)
    Anon(Vec<usize>),
}

#[derive(Clone, Default)]
struct St {
    m2d: BTreeMap<ChanceKey, usize>,
    d2m: BTreeMap<usize, ChanceKey>,
}

struct Ctx<'a> {
    /// absolute slack on terminal payoffs: a Gambit file may be off constant-sum within the
    /// documented tolerance, and the reader spreads that error over the payoffs
    pay_slack: f64,
    dump: &'a Dump,
    names: [Vec<String>; 2],
    actions: [Vec<Vec<String>>; 2],
}

const PAY_TOL: f64 = 1e-9;
const PROB_TOL: f64 = 1e-9;

fn skip(m: &MNode) -> &MNode {
    match m {
        MNode::C { outs, .. } if outs.len() == 1 => skip(&outs[0].2),
        MNode::P { acts, .. } if acts.len() == 1 => skip(&acts[0].1),
        other => other,
    }
}

fn go(cx: &Ctx, m: &MNode, d: &DumpNode, path: &mut Vec<usize>, st: St) -> Result<St, String> {
    let m = skip(m);
    match (m, d) {
        (MNode::T(x), DumpNode::Terminal(y)) => {
            if x.to_bits() == y.to_bits() || (x - y).abs() <= PAY_TOL * (1.0 + x.abs()) + cx.pay_slack {
                Ok(st)
            } else {
                Err(format!("terminal payoff {x} in the file's game, {y} in the parsed game (at {path:?})"))
            }
        }
        (MNode::C { info, outs }, DumpNode::Chance { infoset, outcomes }) => {
            if outs.len() != outcomes.len() {
                return Err(format!("chance node with {} outcomes parsed as one with {} (at {path:?})", outs.len(), outcomes.len()));
            }
            let probs_d = cx.dump.chance_probs.get(*infoset).ok_or("chance infoset index out of range")?;
            if probs_d.len() != outs.len() {
                return Err(format!("chance infoset {infoset} has {} probabilities, node has {} outcomes", probs_d.len(), outs.len()));
            }
            let probs_m: Vec<f64> = crate::model::normalised(&outs.iter().map(|(_, w, _)| *w).collect::<Vec<_>>());
            // partition
            let key = match info {
                Some(n) => ChanceKey::Named(n.clone()),
                None => ChanceKey::Anon(path.clone()),
            };
            let mut st = st;
            match (st.m2d.get(&key), st.d2m.get(infoset)) {
                (None, None) => {
                    st.m2d.insert(key.clone(), *infoset);
                    st.d2m.insert(*infoset, key);
                }
                (Some(i), Some(k)) if i == infoset && *k == key => {}
                _ => {
                    return Err(format!(
                        "chance infosets are partitioned differently: the file's chance infoset {:?} vs parsed chance infoset {infoset} (at {path:?})",
                        info
                    ))
                }
            }
            // match outcomes up to order
            let n = outs.len();
            let mut perm: Vec<usize> = (0..n).collect();
            let mut last_err = String::new();
            loop {
                if (0..n).all(|i| (probs_m[i] - probs_d[perm[i]]).abs() <= PROB_TOL) {
                    let mut cur = Ok(st.clone());
                    for i in 0..n {
                        cur = match cur {
                            Ok(s) => {
                                path.push(i);
                                let r = go(cx, &outs[i].2, &outcomes[perm[i]], path, s);
                                path.pop();
                                r
                            }
                            e => e,
                        };
                    }
                    match cur {
                        Ok(s) => return Ok(s),
                        Err(e) => last_err = e,
                    }
                }
                if !next_permutation(&mut perm) {
                    break;
                }
            }
            if last_err.is_empty() {
                last_err = format!("chance probabilities {probs_m:?} in the file's game, {probs_d:?} in the parsed game (at {path:?})");
            }
            Err(last_err)
        }
        (MNode::P { player, info, acts }, DumpNode::Player { player_two, infoset, actions }) => {
            if (*player_two as usize) != *player {
                return Err(format!("decision node of player {} parsed as player {} (at {path:?})", player + 1, *player_two as usize + 1));
            }
            let name = cx.names[*player].get(*infoset).ok_or("player infoset index out of range")?;
            if name != info {
                return Err(format!("infoset {info:?} parsed as {name:?} (at {path:?})"));
            }
            let anames = &cx.actions[*player][*infoset];
            if anames.len() != acts.len() || actions.len() != acts.len() {
                return Err(format!("infoset {info:?}: {} actions in the file, {} parsed", acts.len(), actions.len()));
            }
            let mut st = st;
            for (j, a) in anames.iter().enumerate() {
                let (i, (_, child)) = acts.iter().enumerate().find(|(_, (n, _))| n == a).ok_or_else(|| format!("infoset {info:?}: parsed action {a:?} is not in the file"))?;
                path.push(i);
                let r = go(cx, child, &actions[j], path, st);
                path.pop();
                st = r?;
            }
            Ok(st)
        }
        (m, d) => Err(format!(
            "node kinds differ at {path:?}: file has a {}, parsed game a {}",
            match m {
                MNode::T(_) => "terminal",
                MNode::C { .. } => "chance node",
                MNode::P { .. } => "decision node",
            },
            match d {
                DumpNode::Terminal(_) => "terminal",
                DumpNode::Chance { .. } => "chance node",
                DumpNode::Player { .. } => "decision node",
            }
        )),
    }
}

fn next_permutation(p: &mut [usize]) -> bool {
    let n = p.len();
    if n < 2 {
        return false;
    }
    let mut i = n - 1;
    while i > 0 && p[i - 1] >= p[i] {
        i -= 1;
    }
    if i == 0 {
        return false;
    }
    let mut j = n - 1;
    while p[j] <= p[i - 1] {
        j -= 1;
    }
    p.swap(i - 1, j);
    p[i..].reverse();
    true
}

/// `model`: the game the file was written from, infosets named as the binary sees them.
pub fn same_game(model: &MNode, game: &crate::model::LibGame, pay_slack: f64) -> Result<(), String> {
    let dump = game.verif_dump();
    let infos = game.verif_infosets();
    let cx = Ctx {
        pay_slack,
        dump: &dump,
        names: [infos[0].iter().map(|(n, _)| (*n).clone()).collect(), infos[1].iter().map(|(n, _)| (*n).clone()).collect()],
        actions: [infos[0].iter().map(|(_, a)| a.to_vec()).collect(), infos[1].iter().map(|(_, a)| a.to_vec()).collect()],
    };
    // every multi-action infoset of the model exists in the parsed game and vice versa
    let minfos = model.infosets();
    for p in 0..2 {
        let multi: Vec<&String> = minfos[p].iter().filter(|(_, a)| a.len() > 1).map(|(n, _)| n).collect();
        for n in &multi {
            if !cx.names[p].contains(n) {
                return Err(format!("infoset {n:?} of player {} is missing from the parsed game", p + 1));
            }
        }
        for n in &cx.names[p] {
            if !multi.contains(&n) {
                return Err(format!("the parsed game has an infoset {n:?} of player {} that the file does not have", p + 1));
            }
        }
    }
    go(&cx, model, &dump.root, &mut vec![], St::default()).map(|_| ())
}
