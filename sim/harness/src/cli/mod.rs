//! Command-line checks: cases, the process driver for `simcli` (the real `main()` inside a
//! simulated execution), output parsing and the fault-injecting reader.
pub mod structure;
pub mod write;

use crate::common::{cores_from, cores_json, Method};
use crate::model::{fj, jf, MNode, Profile};
use crate::rng::{Fnv, Rng};
use cfr_verif_seam::Cores;
use serde_json::{json, Value};
use std::collections::BTreeMap;
use std::io::{Read, Write};
use std::path::PathBuf;
use std::process::{Command, Stdio};


#[derive(Clone, Copy, Debug, PartialEq, Eq)]
pub enum Format {
    Json,
    Gambit,
}

impl Format {
    pub fn name(&self) -> &'static str {
        match self {
            Format::Json => "json",
            Format::Gambit => "gambit",
        }
    }
}

/// how the bytes reach the program and which format flag is given
#[derive(Clone, Debug, PartialEq)]
pub struct Route {
    pub stdin: bool,
    /// file extension when a file is used ("json", "efg", "txt", "")
    pub ext: String,
    /// --input-format value, None = flag absent (auto)
    pub flag: Option<String>,
    pub out_file: bool,
    /// the -o path already exists and holds a longer, older result (a re-used output path)
    pub stale_out: bool,
    /// the -o path is the input file itself (the input is read completely before the result is
    /// written, so solving a file "in place" works)
    pub in_place: bool,
    /// with `stdin`: the program is told `-i /dev/stdin` (a path that is not a regular file: its
    /// length is unknown before it has been read) instead of reading standard input by default
    pub dev_stdin: bool,
}

/// what a re-used output path holds before the run: an older, longer result object
pub const STALE_OUTPUT: &str = "{\"regret\":0.123456789,\"player_one_utility\":1.0,\"player_two_utility\":-1.0,\"player_one_regret\":0.123456789,\"player_two_regret\":0.0,\"player_one_strategy\":{\"an older and much longer infoset name that is not part of this game\":{\"left\":0.25,\"right\":0.75}},\"player_two_strategy\":{\"another older infoset\":{\"x\":1.0}},\"padding\":\"................................................................................................................................................................................................................................................................................................................................................................................................................................................................................................................................................................................................................................................................................................................................................................................................................................................................................................................................................................................................................................................................................................................................................................................................................................................................................................................................................................................................................................................................................................................................................................................................................................................\"}";

impl Route {
    pub fn random(r: &mut Rng, fmt: Format) -> Route {
        let own = fmt.name().to_string();
        let flag = match r.below(3) {
            0 => None,
            1 => Some("auto".to_string()),
            _ => Some(own),
        };
        let explicit = flag.as_deref() == Some(fmt.name());
        let ext = match r.below(5) {
            0 => if fmt == Format::Json { "json" } else { "efg" }.to_string(),
            1 => "txt".to_string(),
            2 => "game".to_string(),
            // an explicit --input-format wins over a misleading extension
            3 if explicit => if fmt == Format::Json { "efg" } else { "json" }.to_string(),
            _ => String::new(),
        };
        let out_file = r.coin(0.3);
        let stdin = r.coin(0.4);
        let stale_out = out_file && r.coin(0.5);
        let in_place = out_file && !stdin && !stale_out && r.coin(0.25);
        let dev_stdin = stdin && r.coin(0.15);
        Route { stdin, ext, flag, out_file, stale_out, in_place, dev_stdin }
    }
    pub fn to_json(&self) -> Value {
        json!({"stdin": self.stdin, "ext": self.ext, "flag": self.flag, "out_file": self.out_file, "stale_out": self.stale_out, "in_place": self.in_place, "dev_stdin": self.dev_stdin})
    }
    pub fn from_json(v: &Value) -> Route {
        Route {
            stdin: v["stdin"].as_bool().unwrap_or(false),
            ext: v["ext"].as_str().unwrap_or("").to_string(),
            flag: v["flag"].as_str().map(|s| s.to_string()),
            out_file: v["out_file"].as_bool().unwrap_or(false),
            stale_out: v["stale_out"].as_bool().unwrap_or(false),
            in_place: v["in_place"].as_bool().unwrap_or(false),
            dev_stdin: v["dev_stdin"].as_bool().unwrap_or(false),
        }
    }
}

#[derive(Clone, Debug, PartialEq)]
pub struct Opts {
    pub method: Option<Method>,
    /// -d value as the CLI spells it
    pub discount: Option<String>,
    pub t: Option<u64>,
    pub r: Option<f64>,
    pub p: Option<usize>,
    pub c: Option<f64>,
}

pub const DISCOUNTS: [(&str, &str); 5] = [("vanilla", "vanilla"), ("lcfr", "lcfr"), ("cfr-plus", "cfr_plus"), ("dcfr", "dcfr"), ("dcfr-prune", "dcfr_prune")];

impl Opts {
    pub fn args(&self) -> Vec<String> {
        let mut a = vec![];
        if let Some(m) = self.method {
            a.push("-m".to_string());
            a.push(m.name().to_string());
        }
        if let Some(d) = &self.discount {
            a.push("-d".to_string());
            a.push(d.clone());
        }
        if let Some(t) = self.t {
            a.push("-t".to_string());
            a.push(t.to_string());
        }
        if let Some(r) = self.r {
            a.push(format!("--max-regret={r}"));
        }
        if let Some(p) = self.p {
            a.push("-p".to_string());
            a.push(p.to_string());
        }
        if let Some(c) = self.c {
            a.push(format!("--clip-threshold={c}"));
        }
        a
    }
    /// documented defaults
    pub fn method_or_default(&self) -> Method {
        self.method.unwrap_or(Method::External)
    }
    pub fn preset_or_default(&self) -> &'static str {
        let d = self.discount.as_deref().unwrap_or("dcfr");
        DISCOUNTS.iter().find(|(cli, _)| *cli == d).map(|(_, p)| *p).unwrap_or("dcfr")
    }
    pub fn t_or_default(&self) -> u64 {
        self.t.unwrap_or(1000)
    }
    pub fn to_json(&self) -> Value {
        json!({"method": self.method.map(|m| m.name()), "discount": self.discount, "t": self.t.map(|t| t.to_string()), "r": self.r.map(fj), "p": self.p.map(|p| p.to_string()), "c": self.c.map(fj)})
    }
    pub fn from_json(v: &Value) -> Result<Opts, String> {
        Ok(Opts {
            method: match v["method"].as_str() {
                Some(s) => Some(Method::from_name(s)?),
                None => None,
            },
            discount: v["discount"].as_str().map(|s| s.to_string()),
            t: v["t"].as_str().and_then(|s| s.parse().ok()),
            r: if v["r"].is_null() { None } else { Some(jf(&v["r"])?) },
            p: v["p"].as_str().and_then(|s| s.parse().ok()),
            c: if v["c"].is_null() { None } else { Some(jf(&v["c"])?) },
        })
    }
}

/// simulation controls handed to `simcli` through the environment
#[derive(Clone, Debug, PartialEq)]
pub struct SimEnv {
    pub policy: String,
    pub sched_seed: u64,
    pub sampling_seed: u64,
    pub cores: Cores,
    pub buggify: bool,
    /// decision-node visits after which the simulated run counts as hung (0 = unlimited)
    pub step_budget: u64,
}

impl SimEnv {
    pub fn random(r: &mut Rng) -> SimEnv {
        let policy = match r.below(10) {
            0..=5 => "random".to_string(),
            6..=8 => format!("pct:{}:{}", r.usize_in(0, 3), 10u64.pow(r.usize_in(1, 5) as u32)),
            _ => "nopreempt".to_string(),
        };
        SimEnv { policy, sched_seed: r.next(), sampling_seed: r.next(), cores: Cores::Real, buggify: r.coin(0.8), step_budget: 0 }
    }
    pub fn to_json(&self) -> Value {
        json!({"policy": self.policy, "sched_seed": self.sched_seed.to_string(), "sampling_seed": self.sampling_seed.to_string(), "cores": cores_json(&self.cores), "buggify": self.buggify, "step_budget": self.step_budget.to_string()})
    }
    pub fn from_json(v: &Value) -> Result<SimEnv, String> {
        Ok(SimEnv {
            policy: v["policy"].as_str().unwrap_or("nopreempt").to_string(),
            sched_seed: v["sched_seed"].as_str().and_then(|s| s.parse().ok()).ok_or("sched_seed")?,
            sampling_seed: v["sampling_seed"].as_str().and_then(|s| s.parse().ok()).ok_or("sampling_seed")?,
            cores: cores_from(&v["cores"])?,
            buggify: v["buggify"].as_bool().unwrap_or(true),
            step_budget: v["step_budget"].as_str().and_then(|s| s.parse().ok()).unwrap_or(0),
        })
    }
}

#[derive(Debug, Default)]
pub struct ProcOut {
    pub status: Option<i32>,
    pub stdout: Vec<u8>,
    pub stderr: String,
    /// content of the -o file if one was requested and exists
    pub out_file: Option<Vec<u8>>,
    pub report: Option<Value>,
    pub timed_out: bool,
    /// a pre-existing -o file was still there, byte for byte, after the run
    /// the -o path was the input file itself
    pub in_place: bool,
    /// the input came through `-i /dev/stdin`
    pub dev_stdin: bool,
    pub stale_out_left_untouched: bool,
    /// the -o path existed (with older, longer content) before the run
    pub stale_out: bool,
}

pub fn simcli_path() -> PathBuf {
    let exe = std::env::current_exe().expect("current_exe");
    exe.parent().expect("exe dir").join("simcli")
}

static COUNTER: std::sync::atomic::AtomicU64 = std::sync::atomic::AtomicU64::new(0);

pub struct Scratch(pub PathBuf);

impl Scratch {
    pub fn new() -> Scratch {
        let n = COUNTER.fetch_add(1, std::sync::atomic::Ordering::SeqCst);
        let d = std::env::temp_dir().join(format!("cfr-verif-{}-{}", std::process::id(), n));
        std::fs::create_dir_all(&d).expect("cannot create scratch dir");
        Scratch(d)
    }
}

impl Drop for Scratch {
    fn drop(&mut self) {
        let _ = std::fs::remove_dir_all(&self.0);
    }
}

/// Run the binary's real main() on `bytes` delivered through `route`.
pub fn run_simcli(bytes: &[u8], route: &Route, opts: &Opts, env: &SimEnv, extra_args: &[String]) -> ProcOut {
    let scratch = Scratch::new();
    let mut cmd = Command::new(simcli_path());
    cmd.env_clear();
    cmd.env("CFR_VERIF_SCHED_POLICY", &env.policy);
    cmd.env("CFR_VERIF_SCHED_SEED", env.sched_seed.to_string());
    cmd.env("CFR_VERIF_SAMPLING_SEED", env.sampling_seed.to_string());
    match env.cores {
        Cores::Real => {}
        Cores::Unknown => {
            cmd.env("CFR_VERIF_CORES", "unknown");
        }
        Cores::Count(n) => {
            cmd.env("CFR_VERIF_CORES", n.to_string());
        }
    }
    cmd.env("CFR_VERIF_BUGGIFY", if env.buggify { "1" } else { "0" });
    if env.step_budget != 0 {
        cmd.env("CFR_VERIF_STEP_BUDGET", env.step_budget.to_string());
    }
    let report = scratch.0.join("report.json");
    cmd.env("CFR_VERIF_REPORT", &report);
    cmd.args(opts.args());
    if let Some(f) = &route.flag {
        cmd.arg("--input-format").arg(f);
    }
    let mut in_path = None;
    let own_input = extra_args.iter().any(|a| a == "-i" || a == "--input");
    if route.stdin && route.dev_stdin && !own_input {
        cmd.arg("-i").arg("/dev/stdin");
    }
    if !route.stdin {
        let name = if route.ext.is_empty() { "game".to_string() } else { format!("game.{}", route.ext) };
        let path = scratch.0.join(name);
        std::fs::write(&path, bytes).expect("cannot write input file");
        cmd.arg("-i").arg(&path);
        in_path = Some(path);
    }
    let in_place = route.in_place && route.out_file && in_path.is_some();
    let out_path = if in_place { in_path.clone().unwrap() } else { scratch.0.join("result.json") };
    if route.out_file {
        cmd.arg("-o").arg(&out_path);
        if route.stale_out {
            std::fs::write(&out_path, STALE_OUTPUT).expect("cannot pre-populate the output file");
        }
    }
    cmd.args(extra_args);
    cmd.stdin(if route.stdin { Stdio::piped() } else { Stdio::null() });
    cmd.stdout(Stdio::piped());
    cmd.stderr(Stdio::piped());
    // (a machine that is out of processes or memory for a moment is not a finding: try again)
    let mut tries = 0;
    let mut child = loop {
        match cmd.spawn() {
            Ok(c) => break c,
            Err(e) if tries < 200 && matches!(e.raw_os_error(), Some(11) | Some(12)) => {
                tries += 1;
                std::thread::sleep(std::time::Duration::from_millis(50));
            }
            Err(e) => panic!("cannot start simcli (was the workspace built?): {e}"),
        }
    };
    if route.stdin {
        let mut si = child.stdin.take().unwrap();
        let data = bytes.to_vec();
        // writer thread: the child may exit before reading everything
        std::thread::spawn(move || {
            let _ = si.write_all(&data);
        });
    }
    // wall-clock watchdog against a run-away process (ordinary runs take milliseconds)
    let limit = std::time::Duration::from_secs(std::env::var("VERIF_WATCHDOG_S").ok().and_then(|s| s.parse().ok()).unwrap_or(180));
    let t0 = std::time::Instant::now();
    let mut so = child.stdout.take().unwrap();
    let mut se = child.stderr.take().unwrap();
    let ho = std::thread::spawn(move || {
        let mut b = Vec::new();
        let _ = so.read_to_end(&mut b);
        b
    });
    let he = std::thread::spawn(move || {
        let mut b = Vec::new();
        let _ = se.read_to_end(&mut b);
        b
    });
    let mut timed_out = false;
    let status = loop {
        match child.try_wait().expect("wait") {
            Some(st) => break st,
            None => {
                if t0.elapsed() > limit {
                    timed_out = true;
                    let _ = child.kill();
                    break child.wait().expect("wait");
                }
                std::thread::sleep(std::time::Duration::from_millis(if t0.elapsed().as_millis() < 50 { 1 } else { 10 }));
            }
        }
    };
    struct Out {
        status: std::process::ExitStatus,
        stdout: Vec<u8>,
        stderr: Vec<u8>,
    }
    let output = Out { status, stdout: ho.join().unwrap_or_default(), stderr: he.join().unwrap_or_default() };
    let mut stderr = String::from_utf8_lossy(&output.stderr).into_owned();
    if timed_out {
        stderr.push_str("\ncfr-verif: watchdog: the process did not finish and was killed");
    }
    if stderr.len() > 4000 {
        stderr.truncate(4000);
    }
    ProcOut {
        status: output.status.code(),
        stdout: output.stdout,
        stderr,
        // an untouched pre-existing file counts as "no file written"
        out_file: if route.out_file { std::fs::read(&out_path).ok().filter(|b| !(route.stale_out && b == STALE_OUTPUT.as_bytes()) && !(in_place && &b[..] == bytes)) } else { None },
        stale_out: route.out_file && route.stale_out,
        in_place,
        dev_stdin: route.stdin && route.dev_stdin && !own_input,
        stale_out_left_untouched: route.out_file && route.stale_out && std::fs::read(&out_path).ok().map(|b| b == STALE_OUTPUT.as_bytes()).unwrap_or(false),
        report: std::fs::read_to_string(&report).ok().and_then(|s| serde_json::from_str(&s).ok()),
        timed_out,
    }
}

/// the result object the binary prints
#[derive(Clone, Debug)]
pub struct Printed {
    pub regret: f64,
    pub util: [f64; 2],
    pub regrets: [f64; 2],
    pub profile: Profile,
}

pub const RESULT_KEYS: [&str; 7] =
    ["regret", "player_one_utility", "player_two_utility", "player_one_regret", "player_two_regret", "player_one_strategy", "player_two_strategy"];

/// parse exactly one JSON result object
pub fn parse_printed(bytes: &[u8]) -> Result<Printed, String> {
    let text = std::str::from_utf8(bytes).map_err(|_| "output is not UTF-8".to_string())?;
    let mut de = serde_json::Deserializer::from_str(text).into_iter::<Value>();
    let v = match de.next() {
        Some(Ok(v)) => v,
        Some(Err(e)) => return Err(format!("output is not JSON: {e}")),
        None => return Err("no output".into()),
    };
    if let Some(x) = de.next() {
        return Err(format!("more than one value in the output: {:?}", x.map(|v| v.to_string())));
    }
    let o = v.as_object().ok_or("output is not an object")?;
    for k in RESULT_KEYS {
        if !o.contains_key(k) {
            return Err(format!("result object lacks {k:?}"));
        }
    }
    if o.len() != RESULT_KEYS.len() {
        return Err(format!("result object has unexpected keys: {:?}", o.keys().collect::<Vec<_>>()));
    }
    // non-finite numbers are serialised as null by serde_json
    let f = |k: &str| -> Result<f64, String> { o[k].as_f64().ok_or_else(|| format!("{k} is not a number: {}", o[k])) };
    let strat = |k: &str| -> Result<BTreeMap<String, BTreeMap<String, f64>>, String> {
        let mut res = BTreeMap::new();
        for (i, acts) in o[k].as_object().ok_or_else(|| format!("{k} is not an object"))? {
            let mut m = BTreeMap::new();
            for (a, q) in acts.as_object().ok_or_else(|| format!("{k}.{i} is not an object"))? {
                m.insert(a.clone(), q.as_f64().ok_or_else(|| format!("{k}.{i}.{a} is not a number: {q}"))?);
            }
            res.insert(i.clone(), m);
        }
        Ok(res)
    };
    Ok(Printed {
        regret: f("regret")?,
        util: [f("player_one_utility")?, f("player_two_utility")?],
        regrets: [f("player_one_regret")?, f("player_two_regret")?],
        profile: [strat("player_one_strategy")?, strat("player_two_strategy")?],
    })
}

/// rename the infosets of a model-keyed profile to the names the binary prints (Gambit
/// files may leave infosets unnamed) or back
pub fn rename_profile(p: &Profile, names: &[BTreeMap<String, String>; 2], to_cli: bool) -> Profile {
    let mut res: Profile = Default::default();
    for pl in 0..2 {
        let map: BTreeMap<&String, &String> =
            if to_cli { names[pl].iter().collect() } else { names[pl].iter().map(|(a, b)| (b, a)).collect() };
        for (i, m) in &p[pl] {
            let n = map.get(i).map(|s| (*s).clone()).unwrap_or_else(|| i.clone());
            res[pl].insert(n, m.clone());
        }
    }
    res
}

/// the model with its infosets renamed to what the binary sees
pub fn rename_model(n: &MNode, names: &[BTreeMap<String, String>; 2]) -> MNode {
    match n {
        MNode::T(x) => MNode::T(*x),
        MNode::C { info, outs } => MNode::C { info: info.clone(), outs: outs.iter().map(|(a, w, c)| (a.clone(), *w, rename_model(c, names))).collect() },
        MNode::P { player, info, acts } => MNode::P {
            player: *player,
            info: names[*player].get(info).cloned().unwrap_or_else(|| info.clone()),
            acts: acts.iter().map(|(a, c)| (a.clone(), rename_model(c, names))).collect(),
        },
    }
}

// --------------------------------------------------------------------------- read faults

#[derive(Clone, Debug)]
pub struct ReadPlan {
    pub seed: u64,
    /// probability of an `Interrupted` error before a chunk
    pub p_eintr: f64,
    /// hard error after this many bytes
    pub error_at: Option<usize>,
    /// premature EOF after this many bytes
    pub eof_at: Option<usize>,
    pub max_chunk: usize,
}

#[derive(Debug, Default, Clone)]
pub struct ReadStats {
    pub chunks: u64,
    pub one_byte_chunks: u64,
    pub eintr: u64,
    pub hard_errors: u64,
    pub early_eof: u64,
    pub utf8_splits: u64,
}

/// delivers `data` in seeded chunks with injected `EINTR`, hard errors and early EOF
pub struct FaultyRead<'a> {
    data: &'a [u8],
    pos: usize,
    r: Rng,
    plan: ReadPlan,
    pub stats: ReadStats,
}

impl<'a> FaultyRead<'a> {
    pub fn new(data: &'a [u8], plan: ReadPlan) -> Self {
        FaultyRead { data, pos: 0, r: Rng::new(plan.seed), plan, stats: ReadStats::default() }
    }
}

impl Read for FaultyRead<'_> {
    fn read(&mut self, buf: &mut [u8]) -> std::io::Result<usize> {
        if buf.is_empty() {
            return Ok(0);
        }
        if self.r.coin(self.plan.p_eintr) {
            self.stats.eintr += 1;
            return Err(std::io::Error::new(std::io::ErrorKind::Interrupted, "simulated EINTR"));
        }
        if let Some(e) = self.plan.error_at {
            if self.pos >= e {
                self.stats.hard_errors += 1;
                return Err(std::io::Error::new(std::io::ErrorKind::Other, "simulated EIO"));
            }
        }
        let mut end = self.data.len();
        if let Some(e) = self.plan.eof_at {
            if e < end {
                end = e;
                if self.pos >= end {
                    self.stats.early_eof += 1;
                }
            }
        }
        if let Some(e) = self.plan.error_at {
            end = end.min(e);
        }
        if self.pos >= end {
            return Ok(0);
        }
        let want = match self.r.below(4) {
            0 => 1,
            1 => 1 + self.r.below(4) as usize,
            _ => 1 + self.r.below(self.plan.max_chunk.max(1) as u64) as usize,
        };
        let n = want.min(buf.len()).min(end - self.pos);
        buf[..n].copy_from_slice(&self.data[self.pos..self.pos + n]);
        self.stats.chunks += 1;
        if n == 1 {
            self.stats.one_byte_chunks += 1;
        }
        // did the chunk end inside a multi-byte UTF-8 sequence?
        if self.pos + n < self.data.len() && (self.data[self.pos + n] & 0xC0) == 0x80 {
            self.stats.utf8_splits += 1;
        }
        self.pos += n;
        Ok(n)
    }
}

pub fn hash_bytes(b: &[u8]) -> u64 {
    let mut h = Fnv::default();
    h.bytes(b);
    h.finish()
}

/// hash of what a process printed that does not depend on the hash-map order of the printed
/// object (the binary prints its strategies from a `HashMap` with a randomised hasher)
pub fn hash_output(b: &[u8]) -> u64 {
    match parse_printed(b) {
        Ok(p) => {
            let mut h = Fnv::default();
            h.f64(p.regret);
            for i in 0..2 {
                h.f64(p.util[i]);
                h.f64(p.regrets[i]);
            }
            crate::model::profile_hash(&p.profile, &mut h);
            h.finish()
        }
        Err(_) => hash_bytes(b),
    }
}
