//! Conditioning guard (DESIGN §5.3): decides whether a numeric comparison of two runs of
//! the same configuration is meaningful. Two independent signals:
//!   1. the reference model's relative guard along the documented trajectory;
//!   2. the library's own sensitivity to a 1e-11 perturbation of the payoffs (K = 1).
//! A difference between two runs is judged only if neither signal fires.
use crate::common::{Method, ParamSpec};
use crate::model::{profile_diff, MNode};
use crate::refmodel::{compile, reference, RefCfg, RefOut, RTree, TiePolicy};
use crate::rng::Rng;
use crate::solve::{observed_solve, SolveCfg, Solved};
use std::sync::OnceLock;

static TIE: OnceLock<TiePolicy> = OnceLock::new();

/// learned once per process, inside its own simulated execution
pub fn tie_policy() -> TiePolicy {
    *TIE.get_or_init(|| {
        let r = crate::sched::simulate(&crate::sched::SchedSpec::nopreempt(), crate::refmodel::learn_tie_policy);
        r.value.unwrap_or(TiePolicy { max: crate::refmodel::Tie::Unknown, min: crate::refmodel::Tie::Unknown })
    })
}

pub fn compile_for(model: &MNode, game: &crate::model::LibGame) -> Result<RTree, String> {
    let dump = game.verif_dump();
    let infos = game.verif_infosets();
    compile(model, &dump, &infos)
}

pub fn run_reference(model: &MNode, game: &crate::model::LibGame, method: Method, params: &ParamSpec, t: u64, thresh: f64, seed: u64) -> Result<RefOut, String> {
    let tree = compile_for(model, game)?;
    Ok(reference(&tree, &RefCfg { method, params: params.documented(), t, thresh, seed, tie: tie_policy() }))
}

pub const PERTURB: f64 = 1e-11;

pub fn perturbed(model: &MNode, salt: u64) -> MNode {
    let d = model.stats().d().max(1e-300);
    let mut r = Rng::new(0xC0DD ^ salt);
    model.map_payoffs(&mut |x| x + PERTURB * d * (r.f() * 2.0 - 1.0))
}

/// Some(reason) if a comparison at tolerance `tol` of runs of this configuration must not be judged.
/// `base` is the unperturbed single-threaded library result.
pub fn ill_conditioned(
    model: &MNode,
    game: &crate::model::LibGame,
    cfg: &SolveCfg,
    base: &Solved,
    tol: f64,
) -> Option<&'static str> {
    // signal 1: reference guard
    if let Some(seed) = cfg.sampling_seed {
        match run_reference(model, game, cfg.method, &cfg.params, cfg.t, cfg.thresh, seed) {
            Ok(r) => {
                if let Some(w) = r.ill {
                    return Some(w);
                }
                if r.min_thresh_gap < 1e-6 {
                    return Some("threshold-near-bound");
                }
            }
            Err(_) => return Some("reference-not-alignable"),
        }
    }
    // signal 2: sensitivity of the single-threaded library itself
    for salt in 0..2u64 {
        let pm = perturbed(model, salt);
        let pg = match pm.build() {
            Ok(g) => g,
            Err(_) => return Some("perturbed-game-rejected"),
        };
        let mut c1 = cfg.clone();
        c1.k = 1;
        c1.fail_build = false;
        c1.record_draws = false;
        c1.record_visits = false;
        c1.step_budget = 0;
        let out = observed_solve(&pg, &c1);
        match out.result {
            Ok(s) => {
                match profile_diff(&s.profile, &base.profile) {
                    Ok(d) if d <= tol / 10.0 => {}
                    _ => return Some("sensitive-to-1e-11-perturbation"),
                }
                let scale = base.bounds[0].abs().max(base.bounds[1].abs()).max(1e-300);
                for p in 0..2 {
                    let (a, b) = (s.bounds[p], base.bounds[p]);
                    if a.is_finite() != b.is_finite() || (a.is_finite() && (a - b).abs() > 1e-6 * scale) {
                        return Some("bound-sensitive-to-1e-11-perturbation");
                    }
                }
            }
            Err(_) => return Some("perturbed-run-failed"),
        }
    }
    None
}
