//! Batch driver: seeded runs across OS threads (each run is self-contained, so results do
//! not depend on the number of workers), violation handling (minimise, write replay file,
//! known-finding matching), replay, determinism self-test, evidence.
use crate::common::{viol, Metrics, RunOut, Tier, Verdict, Violation};
use crate::rng::{mix, Fnv, Rng};
use serde_json::{json, Value};
use std::collections::{BTreeMap, BTreeSet};
use std::sync::atomic::{AtomicU64, Ordering};
use std::sync::Mutex;
use std::time::Instant;

pub const DEFAULT_SEED: u64 = 20260928;

pub trait Prop: Sync {
    type Case: Clone + Send;
    fn id(&self) -> &'static str;
    /// evidence "level"
    fn level(&self) -> &'static str {
        "exploration"
    }
    fn runs(&self, tier: Tier) -> u64;
    fn gen(&self, r: &mut Rng, tier: Tier, idx: u64) -> Self::Case;
    fn run(&self, case: &Self::Case) -> RunOut;
    fn case_to_json(&self, case: &Self::Case) -> Value;
    fn case_from_json(&self, v: &Value) -> Result<Self::Case, String>;
    fn summary(&self, case: &Self::Case) -> Value;
    /// case with the schedule replaced by an exact replay of `traces`
    fn with_replay(&self, case: &Self::Case, traces: &[crate::sched::Trace]) -> Self::Case;
    /// case with the schedule replaced by a fresh seeded one (None: the null schedule)
    fn with_sched_seed(&self, case: &Self::Case, seed: Option<u64>) -> Self::Case;
    /// smaller variants, biggest reductions first
    fn shrink(&self, case: &Self::Case) -> Vec<Self::Case>;
    /// is the violation class schedule dependent (then shrink candidates are re-searched)
    fn schedule_dependent(&self) -> bool {
        true
    }
    fn rule(&self) -> String;
    fn assumptions(&self) -> Vec<String>;
    fn components(&self) -> Value {
        json!({
            "real": ["src/lib.rs", "src/solve/*.rs", "src/regret.rs (unmodified sources, hooks on)", "rand_distr alias sampler", "private Multinomial sampler"],
            "stub": ["rayon (verif-rayon-shim on shuttle threads)", "portable_atomic::AtomicF64 (verif-patomic-shim on shuttle AtomicU64)", "std::sync::Mutex (shuttle Mutex)", "thread_rng entropy (keyed SplitMix64)", "available_parallelism (override)"],
        })
    }
    /// extra, check-specific evidence computed from the aggregated metrics
    fn extra_evidence(&self, _agg: &Aggregate) -> Value {
        Value::Null
    }
    /// population-level oracle evaluated after the batch (e.g. C04 oracle B)
    fn population_verdict(&self, _agg: &Aggregate) -> Option<Violation> {
        None
    }
}

#[derive(Default)]
pub struct Aggregate {
    pub evaluations: u64,
    pub passes: u64,
    pub skips: BTreeMap<&'static str, u64>,
    pub counters: BTreeMap<&'static str, u64>,
    pub maxes: BTreeMap<&'static str, f64>,
    pub interleavings: BTreeSet<u64>,
    pub nontrivial: BTreeSet<u64>,
    pub games: BTreeSet<u64>,
    pub log_hashes: BTreeMap<u64, u64>,
    pub samples: Vec<Value>,
    /// free-form per-run records a check wants to see again after the batch (population oracles)
    pub records: Vec<(u64, String, f64)>,
    pub harness_errors: Vec<(u64, String)>,
}

impl Aggregate {
    fn absorb(&mut self, idx: u64, m: &Metrics, keep_hashes: bool) {
        for (k, v) in &m.counters {
            *self.counters.entry(k).or_insert(0) += v;
        }
        for (k, v) in &m.maxes {
            let e = self.maxes.entry(k).or_insert(f64::NEG_INFINITY);
            if *v > *e {
                *e = *v;
            }
        }
        self.interleavings.extend(m.interleavings.iter().copied());
        if let Some(k) = m.nontrivial_key {
            self.nontrivial.insert(k);
        }
        self.games.insert(m.game_hash);
        if keep_hashes {
            self.log_hashes.insert(idx, m.log_hash);
        }
        for (k, v) in &m.records {
            self.records.push((idx, k.clone(), *v));
        }
    }
}

pub fn verif_seed() -> u64 {
    std::env::var("VERIF_SEED").ok().and_then(|s| s.trim().parse::<u64>().ok()).unwrap_or(DEFAULT_SEED)
}

pub fn jobs() -> usize {
    std::env::var("VERIF_JOBS").ok().and_then(|s| s.parse().ok()).unwrap_or(16).max(1)
}

pub fn verif_dir() -> std::path::PathBuf {
    std::env::var("VERIF_DIR").map(Into::into).unwrap_or_else(|_| "/verif".into())
}

pub fn run_seed(seed: u64, id: &str, idx: u64) -> u64 {
    let mut h = Fnv::default();
    h.str(id);
    mix(mix(seed, h.finish()), idx)
}

struct Found<C> {
    idx: u64,
    case: C,
    violation: Violation,
    traces: Vec<crate::sched::Trace>,
}

pub struct BatchResult<C> {
    pub agg: Aggregate,
    found: Vec<Found<C>>,
    pub wall_s: f64,
    pub wall_capped: bool,
}

pub fn run_batch<P: Prop>(p: &P, tier: Tier, seed: u64, n_runs: u64, wall_cap_s: f64) -> BatchResult<P::Case> {
    run_batch_opt(p, tier, seed, n_runs, wall_cap_s, false)
}

pub fn run_batch_opt<P: Prop>(p: &P, tier: Tier, seed: u64, n_runs: u64, wall_cap_s: f64, keep_hashes: bool) -> BatchResult<P::Case> {
    let next = AtomicU64::new(0);
    let limit = AtomicU64::new(n_runs);
    let agg = Mutex::new(Aggregate::default());
    let found: Mutex<Vec<Found<P::Case>>> = Mutex::new(vec![]);
    let t0 = Instant::now();
    let capped = std::sync::atomic::AtomicBool::new(false);
    let sample_every = (n_runs / 6).max(1);
    std::thread::scope(|s| {
        for _ in 0..jobs() {
            s.spawn(|| loop {
                let idx = next.fetch_add(1, Ordering::SeqCst);
                if idx >= limit.load(Ordering::SeqCst) {
                    break;
                }
                if t0.elapsed().as_secs_f64() > wall_cap_s {
                    capped.store(true, Ordering::SeqCst);
                    break;
                }
                let mut r = Rng::new(run_seed(seed, p.id(), idx));
                let case = p.gen(&mut r, tier, idx);
                let out = run_guarded(p, &case);
                let mut a = agg.lock().unwrap();
                a.evaluations += 1;
                a.absorb(idx, &out.metrics, keep_hashes);
                if idx % sample_every == 0 && a.samples.len() < 8 {
                    let mut s = p.summary(&case);
                    if let Some(o) = s.as_object_mut() {
                        o.insert("run_index".into(), json!(idx));
                        o.insert(
                            "verdict".into(),
                            json!(match &out.verdict {
                                Verdict::Pass => "pass".to_string(),
                                Verdict::Skip(r) => format!("skip:{r}"),
                                Verdict::Violation(v) => format!("violation:{}", v.class),
                                Verdict::Harness(e) => format!("harness-error:{e}"),
                            }),
                        );
                    }
                    a.samples.push(s);
                }
                match out.verdict {
                    Verdict::Pass => a.passes += 1,
                    Verdict::Skip(r) => *a.skips.entry(r).or_insert(0) += 1,
                    Verdict::Harness(e) => a.harness_errors.push((idx, e)),
                    Verdict::Violation(v) => {
                        drop(a);
                        let mut f = found.lock().unwrap();
                        f.push(Found { idx, case, violation: v, traces: out.traces });
                        // let a few more distinct ones be found, then stop handing out work
                        // (VERIF_NO_STOP: count every violation of the batch, for rate measurements)
                        if f.len() >= 12 && std::env::var("VERIF_NO_STOP").is_err() {
                            limit.fetch_min(idx, Ordering::SeqCst);
                        }
                    }
                }
            });
        }
    });
    let mut found = found.into_inner().unwrap();
    found.sort_by_key(|f| f.idx);
    BatchResult {
        agg: agg.into_inner().unwrap(),
        found,
        wall_s: t0.elapsed().as_secs_f64(),
        wall_capped: capped.load(Ordering::SeqCst),
    }
}

// ------------------------------------------------------------------ known findings

#[derive(Debug, Clone)]
pub struct KnownFinding {
    pub property: String,
    pub class: String,
    pub sig: String,
    pub text: String,
}

pub fn known_findings() -> Vec<KnownFinding> {
    let path = verif_dir().join("KNOWN_FINDINGS.txt");
    let mut res = vec![];
    if let Ok(s) = std::fs::read_to_string(path) {
        for line in s.lines() {
            let line = line.trim();
            if let Some(rest) = line.strip_prefix("finding:") {
                let mut prop = String::new();
                let mut class = String::new();
                let mut sig = String::new();
                let mut text = vec![];
                for tok in rest.split_whitespace() {
                    if let Some(v) = tok.strip_prefix("property=") {
                        prop = v.to_string();
                    } else if let Some(v) = tok.strip_prefix("class=") {
                        class = v.to_string();
                    } else if let Some(v) = tok.strip_prefix("sig=") {
                        sig = v.to_string();
                    } else {
                        text.push(tok);
                    }
                }
                res.push(KnownFinding { property: prop, class, sig, text: text.join(" ") });
            }
        }
    }
    res
}

fn class_token(c: &str) -> String {
    c.chars().map(|ch| if ch.is_whitespace() { '_' } else { ch }).collect()
}

fn matches_known(id: &str, v: &Violation, known: &[KnownFinding]) -> Option<KnownFinding> {
    known
        .iter()
        .find(|k| k.property == id && k.class == class_token(&v.class) && !k.sig.is_empty() && k.sig == v.sig)
        .cloned()
}

// ------------------------------------------------------------------ minimisation + replay files

fn same_class(a: &Violation, b: &Violation) -> bool {
    a.class == b.class && a.sig == b.sig
}

fn run_for_class<P: Prop>(p: &P, case: &P::Case, want: &Violation) -> Option<(Violation, Vec<crate::sched::Trace>, u64)> {
    let out = run_guarded(p, case);
    match out.verdict {
        Verdict::Violation(v) if same_class(&v, want) => Some((v, out.traces, out.metrics.log_hash)),
        _ => None,
    }
}

/// Greedy, bounded minimisation. Returns the minimised case (schedule = exact replay).
pub fn minimise<P: Prop>(p: &P, case: &P::Case, v: &Violation, traces: &[crate::sched::Trace], budget_s: f64) -> (P::Case, Violation, u64, u64) {
    let t0 = Instant::now();
    let mut runs = 0u64;
    // candidates that hang must not cost a full watchdog period each
    crate::sched::WATCHDOG_OVERRIDE_S.store(crate::sched::watchdog_secs().min(15), Ordering::Relaxed);
    struct Reset;
    impl Drop for Reset {
        fn drop(&mut self) {
            crate::sched::WATCHDOG_OVERRIDE_S.store(0, Ordering::Relaxed);
        }
    }
    let _reset = Reset;
    let mut cur = p.with_replay(case, traces);
    let mut cur_v = v.clone();
    let mut cur_hash = 0u64;
    // the recorded schedule must reproduce the violation
    runs += 1;
    match run_for_class(p, &cur, v) {
        Some((vv, _, h)) => {
            cur_v = vv;
            cur_hash = h;
        }
        None => {
            // fall back to the original (seeded) schedule, which is deterministic as well
            cur = case.clone();
            if let Some((vv, _, h)) = run_for_class(p, &cur, v) {
                cur_v = vv;
                cur_hash = h;
            }
        }
    }
    // try the null schedule
    let null = p.with_sched_seed(&cur, None);
    runs += 1;
    if let Some((vv, tr, h)) = run_for_class(p, &null, v) {
        cur = p.with_replay(&null, &tr);
        cur_v = vv;
        cur_hash = h;
    }
    let search = if p.schedule_dependent() { 24 } else { 0 };
    let mut progress = true;
    while progress && t0.elapsed().as_secs_f64() < budget_s {
        progress = false;
        for cand in p.shrink(&cur) {
            if t0.elapsed().as_secs_f64() > budget_s {
                break;
            }
            // with the null schedule first, then a few seeded schedules
            let mut hit = None;
            let null = p.with_sched_seed(&cand, None);
            runs += 1;
            if let Some((vv, tr, h)) = run_for_class(p, &null, v) {
                hit = Some((p.with_replay(&null, &tr), vv, h));
            } else {
                for s in 0..search {
                    let c2 = p.with_sched_seed(&cand, Some(mix(0xD15EA5E, s)));
                    runs += 1;
                    if let Some((vv, tr, h)) = run_for_class(p, &c2, v) {
                        hit = Some((p.with_replay(&c2, &tr), vv, h));
                        break;
                    }
                }
            }
            if let Some((c, vv, h)) = hit {
                cur = c;
                cur_v = vv;
                cur_hash = h;
                progress = true;
                break;
            }
        }
    }
    // final confirmation run of exactly what is written out
    if let Some((vv, _, h)) = run_for_class(p, &cur, v) {
        cur_v = vv;
        cur_hash = h;
    }
    (cur, cur_v, cur_hash, runs)
}

fn digest(v: &Value) -> u64 {
    let mut h = Fnv::default();
    h.str(&v.to_string());
    h.finish()
}

pub fn write_replay<P: Prop>(p: &P, seed: u64, idx: u64, original: &P::Case, case: &P::Case, v: &Violation, log_hash: u64, min_runs: u64) -> String {
    let dir = verif_dir().join("out").join("replay");
    let _ = std::fs::create_dir_all(&dir);
    let cj = p.case_to_json(case);
    let oj = p.case_to_json(original);
    let d = digest(&cj);
    let path = dir.join(format!("{}-{:016x}.json", p.id(), d));
    let doc = json!({
        "property": p.id(),
        "class": v.class,
        "sig": v.sig,
        "message": v.message,
        "verif_seed": seed.to_string(),
        "run_index": idx,
        "original_case_digest": format!("{:016x}", digest(&oj)),
        "minimisation_runs": min_runs,
        "expected_log_hash": format!("{:016x}", log_hash),
        "case": cj,
    });
    std::fs::write(&path, serde_json::to_string_pretty(&doc).unwrap()).expect("cannot write replay file");
    path.to_string_lossy().into_owned()
}

/// `check --replay FILE`: exit code
pub fn replay<P: Prop>(p: &P, path: &str) -> i32 {
    let doc: Value = match std::fs::read_to_string(path).map_err(|e| e.to_string()).and_then(|s| serde_json::from_str(&s).map_err(|e| e.to_string())) {
        Ok(v) => v,
        Err(e) => {
            eprintln!("HARNESS-ERROR cannot read replay file {path}: {e}");
            return 2;
        }
    };
    let case = match p.case_from_json(&doc["case"]) {
        Ok(c) => c,
        Err(e) => {
            eprintln!("HARNESS-ERROR bad case in {path}: {e}");
            return 2;
        }
    };
    let out = run_guarded(p, &case);
    println!("replay property={} file={}", p.id(), path);
    match out.verdict {
        Verdict::Violation(v) => {
            let want_class = doc["class"].as_str().unwrap_or("");
            let want_hash = doc["expected_log_hash"].as_str().unwrap_or("");
            let got_hash = format!("{:016x}", out.metrics.log_hash);
            println!("class={} (recorded {})", v.class, want_class);
            println!("message={}", v.message);
            println!("log_hash={} (recorded {}) {}", got_hash, want_hash, if got_hash == want_hash { "IDENTICAL" } else { "DIFFERENT" });
            println!("VIOLATION property={} replay={}", p.id(), path);
            1
        }
        Verdict::Pass => {
            println!("no violation on replay (the recorded violation does not occur on this tree)");
            0
        }
        Verdict::Skip(r) => {
            println!("no verdict on replay: {r}");
            0
        }
        Verdict::Harness(e) => {
            eprintln!("HARNESS-ERROR on replay: {e}");
            2
        }
    }
}

// ------------------------------------------------------------------ main entry of a check

pub struct Outcome {
    pub exit: i32,
}

pub fn check_main<P: Prop>(p: &P, tier: Tier) -> Outcome {
    let seed = verif_seed();
    println!("check {} tier={} VERIF_SEED={} jobs={}", p.id(), tier.name(), seed, jobs());
    let div: u64 = std::env::var("VERIF_RUNS_DIV").ok().and_then(|s| s.parse().ok()).unwrap_or(1).max(1);
    let n = std::env::var("VERIF_RUNS").ok().and_then(|s| s.parse().ok()).unwrap_or_else(|| (p.runs(tier) / div).max(1));
    let cap = std::env::var("VERIF_WALL_CAP_S").ok().and_then(|s| s.parse().ok()).unwrap_or(match tier {
        Tier::Quick => 900.0,
        Tier::Thorough => 7200.0,
    });
    let res = run_batch(p, tier, seed, n, cap);
    let known = known_findings();
    let mut violations = 0;
    let mut exit = 0;
    let mut known_hit: BTreeMap<String, (KnownFinding, u64)> = BTreeMap::new();
    let mut reported: Vec<Value> = vec![];
    let mut seen_classes: BTreeSet<(String, String)> = BTreeSet::new();
    for f in &res.found {
        if let Some(k) = matches_known(p.id(), &f.violation, &known) {
            known_hit.entry(format!("{}|{}", k.class, k.sig)).or_insert((k, 0)).1 += 1;
            continue;
        }
        violations += 1;
        if !seen_classes.insert((f.violation.class.clone(), f.violation.sig.clone())) || reported.len() >= 3 {
            continue;
        }
        // a wall-clock hang costs a full watchdog period per attempt: report it as found
        let (mc, mv, h, runs) = if f.violation.class == "hang-watchdog" { (f.case.clone(), f.violation.clone(), 0, 0) } else { minimise(p, &f.case, &f.violation, &f.traces, 45.0) };
        let path = write_replay(p, seed, f.idx, &f.case, &mc, &mv, h, runs);
        println!("violation class={} sig={} run_index={} message={}", mv.class, mv.sig, f.idx, mv.message);
        println!("VIOLATION property={} replay={}", p.id(), path);
        reported.push(json!({"class": mv.class, "sig": mv.sig, "message": mv.message, "run_index": f.idx, "replay": path, "minimised_case": p.summary(&mc)}));
        exit = 1;
    }
    let mut agg = res.agg;
    agg.records.sort_by(|a, b| a.0.cmp(&b.0).then(a.1.cmp(&b.1)));
    if !agg.harness_errors.is_empty() {
        agg.harness_errors.sort();
        for (i, e) in agg.harness_errors.iter().take(5) {
            eprintln!("HARNESS-ERROR run_index={i}: {e}");
        }
        return Outcome { exit: 2 };
    }
    if exit == 0 {
        if let Some(v) = p.population_verdict(&agg) {
            // population-level violations have no single replayable case: the replay file
            // records the batch (seed, tier, runs) that reproduces it
            let dir = verif_dir().join("out").join("replay");
            let _ = std::fs::create_dir_all(&dir);
            let path = dir.join(format!("{}-population-{}.json", p.id(), seed));
            let doc = json!({"property": p.id(), "class": v.class, "sig": v.sig, "message": v.message, "verif_seed": seed.to_string(), "tier": tier.name(), "runs": n, "population": true});
            let _ = std::fs::write(&path, serde_json::to_string_pretty(&doc).unwrap());
            println!("violation class={} message={}", v.class, v.message);
            println!("VIOLATION property={} replay={}", p.id(), path.to_string_lossy());
            violations += 1;
            exit = 1;
        }
    }
    for (k, n) in known_hit.values() {
        println!("KNOWN-FINDING: property={} class={} sig={} {} (hit {} times in this run)", p.id(), k.class, k.sig, k.text, n);
    }
    // evidence
    let mut samples = std::mem::take(&mut agg.samples);
    samples.sort_by_key(|s| s["run_index"].as_u64().unwrap_or(0));
    let per_hour = if res.wall_s > 0.0 { agg.evaluations as f64 / res.wall_s * 3600.0 } else { 0.0 };
    let mut coverage = json!({
        "evaluations": agg.evaluations,
        "distinct_nontrivial": agg.nontrivial.len(),
        "rule": p.rule(),
        "samples": samples,
        "exhaustive": false,
        "runs_per_hour": per_hour.round(),
        "distinct_run_seeds": agg.evaluations,
        "distinct_games": agg.games.len(),
        "distinct_interleavings": agg.interleavings.len(),
        "interleaving_measure": "distinct hashes of the complete scheduler-decision sequence (task choices + random values handed to the stubs) of a simulated execution",
        "simulated_time": {"unit": "scheduling steps (the repository has no clocks or timers)", "steps": agg.counters.get("sched_steps").copied().unwrap_or(0)},
        "passes": agg.passes,
        "skipped": agg.skips,
        "counters": agg.counters,
        "observed_max": agg.maxes.iter().map(|(k, v)| (k.to_string(), json!(v))).collect::<serde_json::Map<_, _>>(),
        "components": p.components(),
        "wall_capped": res.wall_capped,
        "violations_reported": reported,
        "known_findings_hit": known_hit.values().map(|(k, n)| json!({"class": k.class, "sig": k.sig, "hits": n})).collect::<Vec<_>>(),
    });
    let extra = p.extra_evidence(&agg);
    if let (Some(c), Some(e)) = (coverage.as_object_mut(), extra.as_object()) {
        for (k, v) in e {
            c.insert(k.clone(), v.clone());
        }
    }
    let ev = json!({
        "property_id": p.id(),
        "tier": tier.name(),
        "seed": seed,
        "level": p.level(),
        "coverage": coverage,
        "assumptions": p.assumptions(),
        "wall_s": (res.wall_s * 1000.0).round() / 1000.0,
        "violations": violations,
    });
    let evdir = verif_dir().join("evidence");
    let _ = std::fs::create_dir_all(&evdir);
    let evpath = evdir.join(format!("{}.json", p.id()));
    if let Err(e) = std::fs::write(&evpath, serde_json::to_string_pretty(&ev).unwrap()) {
        eprintln!("HARNESS-ERROR cannot write evidence {evpath:?}: {e}");
        return Outcome { exit: 2 };
    }
    // generated games are valid by construction: one that from_root rejects is lost coverage
    // (C05 also feeds contract-edge trees, which may be rejected)
    if p.id() != "C05" {
        if let Some(n) = agg.skips.get("game-rejected") {
            println!("coverage-warning: {n} generated (valid by construction) games were rejected by the library and could not be judged");
        }
    }
    // coverage warnings (never a failure)
    for (k, v) in &agg.counters {
        if (k.starts_with("fault_") || k.starts_with("probe_")) && *v == 0 {
            println!("coverage-warning: {k} stayed at 0 in this tier");
        }
    }
    println!(
        "{} {}: runs={} pass={} skipped={} violations={} known-finding-hits={} distinct_nontrivial={} interleavings={} wall={:.1}s",
        p.id(),
        if exit == 0 { "OK" } else { "FAILED" },
        agg.evaluations,
        agg.passes,
        agg.skips.values().sum::<u64>(),
        violations,
        known_hit.values().map(|(_, n)| *n).sum::<u64>(),
        agg.nontrivial.len(),
        agg.interleavings.len(),
        res.wall_s
    );
    Outcome { exit }
}

/// Determinism self-test: prints `idx loghash` for the first n runs of a check (diffed across
/// processes / job counts by `selftest.sh`).
pub fn dump_hashes<P: Prop>(p: &P, tier: Tier, n: u64) {
    let seed = verif_seed();
    let res = run_batch_opt(p, tier, seed, n, 1e9, true);
    for (i, h) in &res.agg.log_hashes {
        println!("{} {} {:016x}", p.id(), i, h);
    }
    for f in &res.found {
        println!("{} {} violation {}", p.id(), f.idx, f.violation.class);
    }
}


/// `Prop::run` with a net under it: library code that a check runs outside a simulated execution
/// (a single-threaded baseline, say) panics on the harness's own thread; that is a verdict about
/// the tree, not a reason for the check to die.
pub fn run_guarded<P: Prop>(p: &P, case: &P::Case) -> RunOut {
    match std::panic::catch_unwind(std::panic::AssertUnwindSafe(|| p.run(case))) {
        Ok(o) => o,
        Err(e) => {
            let msg = e.downcast_ref::<String>().cloned().or_else(|| e.downcast_ref::<&str>().map(|s| s.to_string())).unwrap_or_else(|| "<non-string panic payload>".into());
            RunOut { verdict: viol("panic:outside-the-simulated-execution", "", msg.lines().next().unwrap_or("").to_string()), metrics: Metrics::default(), traces: vec![] }
        }
    }
}
