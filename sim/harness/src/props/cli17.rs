//! C17: malformed or unsupported input is rejected — enumeration of stored-file and
//! read-stream faults on generated valid files.
use crate::cli::write::{to_efg, EfgStyle};
use crate::cli::*;
use crate::cli_case_boilerplate;
use crate::common::*;
use crate::driver::{Aggregate, Prop};
use crate::gen;
use crate::model::MNode;
use crate::props::cli15::{proc_metrics, random_opts, shrink_cli_case, CliCase};
use crate::props::totality::{forget_own_action, single_and_multi};
use crate::rng::{Fnv, Rng};
use crate::sched::Trace;
use serde_json::{json, Value};
use std::collections::BTreeMap;

pub struct CliRejects;

pub const KINDS: [&str; 28] = [
    "truncate",
    "truncate",
    "empty",
    "bad_utf8",
    "read_error_directory",
    "byteflip",
    "byteflip",
    "json:drop_field",
    "json:rename_field",
    "json:wrong_type",
    "json:prob_missing",
    "json:trailing_value",
    "json:duplicate_field",
    "both:prob_zero",
    "both:prob_negative",
    "json:weights_all_negative",
    "both:empty_actions",
    "both:actions_differ",
    "both:single_action_names_differ",
    "gambit:interior_payment_breaks_constant_sum",
    "both:chance_weights_differ",
    "both:own_action_forgotten",
    "both:one_action_here_several_there",
    "both:previous_infoset_differs",
    "gambit:players",
    "gambit:not_constant_sum",
    "gambit:payoff_huge",
    "gambit:structure",
];

const DOCUMENTED: [&str; 8] = [
    "#json-error",
    "#gambit-error",
    "#auto-error",
    "#duplicate-infosets",
    "#constant-sum",
    "#game-error",
    "only supports two player games",
    "non-finite payoffs",
];

fn documented(stderr: &str) -> Option<&'static str> {
    DOCUMENTED.iter().find(|m| stderr.contains(**m)).copied()
}

// ------------------------------------------------------------ model-level corruptions

fn rename_one_action(g: &MNode, r: &mut Rng) -> Option<MNode> {
    // an infoset with >= 2 nodes: one node gets a different action name
    let mut count: BTreeMap<(usize, String), usize> = BTreeMap::new();
    fn cnt(n: &MNode, m: &mut BTreeMap<(usize, String), usize>) {
        match n {
            MNode::T(_) => {}
            MNode::C { outs, .. } => outs.iter().for_each(|(_, _, c)| cnt(c, m)),
            MNode::P { player, info, acts } => {
                if acts.len() > 1 {
                    *m.entry((*player, info.clone())).or_insert(0) += 1;
                }
                acts.iter().for_each(|(_, c)| cnt(c, m));
            }
        }
    }
    cnt(g, &mut count);
    let cands: Vec<((usize, String), usize)> = count.into_iter().filter(|(_, c)| *c >= 2).collect();
    if cands.is_empty() {
        return None;
    }
    let ((p, name), c) = r.pick(&cands).clone();
    let mut which = r.below(c as u64) as isize;
    fn go(n: &MNode, p: usize, name: &str, which: &mut isize) -> MNode {
        match n {
            MNode::T(x) => MNode::T(*x),
            MNode::C { info, outs } => MNode::C { info: info.clone(), outs: outs.iter().map(|(a, w, c)| (a.clone(), *w, go(c, p, name, which))).collect() },
            MNode::P { player, info, acts } => {
                let mut hit = false;
                if *player == p && info == name {
                    *which -= 1;
                    hit = *which == -1;
                }
                MNode::P {
                    player: *player,
                    info: info.clone(),
                    acts: acts.iter().enumerate().map(|(k, (a, c))| (if hit && k == acts.len() - 1 { format!("{a}zz") } else { a.clone() }, go(c, p, name, which))).collect(),
                }
            }
        }
    }
    Some(go(g, p, &name, &mut which))
}

/// a single-action infoset with two or more nodes: one node offers a differently named action
fn rename_single_action(g: &MNode, r: &mut Rng) -> Option<MNode> {
    let mut count: BTreeMap<(usize, String), usize> = BTreeMap::new();
    fn cnt(n: &MNode, m: &mut BTreeMap<(usize, String), usize>) {
        match n {
            MNode::T(_) => {}
            MNode::C { outs, .. } => outs.iter().for_each(|(_, _, c)| cnt(c, m)),
            MNode::P { player, info, acts } => {
                if acts.len() == 1 {
                    *m.entry((*player, info.clone())).or_insert(0) += 1;
                }
                acts.iter().for_each(|(_, c)| cnt(c, m));
            }
        }
    }
    cnt(g, &mut count);
    let cands: Vec<((usize, String), usize)> = count.into_iter().filter(|(_, c)| *c >= 2).collect();
    if cands.is_empty() {
        return None;
    }
    let ((p, name), c) = r.pick(&cands).clone();
    let mut which = r.below(c as u64) as isize;
    fn go(n: &MNode, p: usize, name: &str, which: &mut isize) -> MNode {
        match n {
            MNode::T(x) => MNode::T(*x),
            MNode::C { info, outs } => MNode::C { info: info.clone(), outs: outs.iter().map(|(a, w, c)| (a.clone(), *w, go(c, p, name, which))).collect() },
            MNode::P { player, info, acts } => {
                let mut hit = false;
                if *player == p && info == name && acts.len() == 1 {
                    *which -= 1;
                    hit = *which == -1;
                }
                MNode::P { player: *player, info: info.clone(), acts: acts.iter().map(|(a, c)| (if hit { format!("{a}zz") } else { a.clone() }, go(c, p, name, which))).collect() }
            }
        }
    }
    Some(go(g, p, &name, &mut which))
}

fn chance_weights_differ(g: &MNode, r: &mut Rng) -> Option<MNode> {
    // a named chance infoset with >= 2 (multi-outcome) nodes: one node gets another weight
    let mut count: BTreeMap<String, usize> = BTreeMap::new();
    fn cnt(n: &MNode, m: &mut BTreeMap<String, usize>) {
        match n {
            MNode::T(_) => {}
            MNode::C { info, outs } => {
                if let (Some(i), true) = (info, outs.len() > 1) {
                    *m.entry(i.clone()).or_insert(0) += 1;
                }
                outs.iter().for_each(|(_, _, c)| cnt(c, m));
            }
            MNode::P { acts, .. } => acts.iter().for_each(|(_, c)| cnt(c, m)),
        }
    }
    cnt(g, &mut count);
    let cands: Vec<(String, usize)> = count.into_iter().filter(|(_, c)| *c >= 2).collect();
    if cands.is_empty() {
        return None;
    }
    let (name, c) = r.pick(&cands).clone();
    let mut which = r.below(c as u64) as isize;
    // or: the node gets one more outcome of negligible weight (the common outcomes then agree to
    // within rounding, but the two nodes do not have the same distribution)
    let extra = r.coin(0.4);
    fn go(n: &MNode, name: &str, which: &mut isize, extra: bool) -> MNode {
        match n {
            MNode::T(x) => MNode::T(*x),
            MNode::C { info, outs } => {
                let mut hit = false;
                if info.as_deref() == Some(name) && outs.len() > 1 {
                    *which -= 1;
                    hit = *which == -1;
                }
                let mut o: Vec<(String, f64, MNode)> = outs.iter().enumerate().map(|(k, (a, w, c))| (a.clone(), if hit && !extra && k == 0 { *w + 7.0 } else { *w }, go(c, name, which, extra))).collect();
                if hit && extra {
                    o.push(("zz one more".to_string(), 1e-12, MNode::T(0.0)));
                }
                MNode::C { info: info.clone(), outs: o }
            }
            MNode::P { player, info, acts } => MNode::P { player: *player, info: info.clone(), acts: acts.iter().map(|(a, c)| (a.clone(), go(c, name, which, extra))).collect() },
        }
    }
    Some(go(g, &name, &mut which, extra))
}

/// merge two infosets of one player that have the same number of actions but follow
/// different previous infosets of that player (one of them at least has a previous infoset)
fn previous_infoset_differs(g: &MNode, r: &mut Rng) -> Option<MNode> {
    let mut found: BTreeMap<(usize, String), (usize, Option<String>)> = BTreeMap::new();
    fn go(n: &MNode, prev: [Option<String>; 2], f: &mut BTreeMap<(usize, String), (usize, Option<String>)>) {
        match n {
            MNode::T(_) => {}
            MNode::C { outs, .. } => outs.iter().for_each(|(_, _, c)| go(c, prev.clone(), f)),
            MNode::P { player, info, acts } => {
                let mut next = prev.clone();
                if acts.len() > 1 {
                    f.entry((*player, info.clone())).or_insert((acts.len(), prev[*player].clone()));
                    next[*player] = Some(info.clone());
                }
                acts.iter().for_each(|(_, c)| go(c, next.clone(), f));
            }
        }
    }
    go(g, [None, None], &mut found);
    let v: Vec<(&(usize, String), &(usize, Option<String>))> = found.iter().collect();
    let mut cands = vec![];
    for i in 0..v.len() {
        for j in i + 1..v.len() {
            let ((pa, na), (ca, preva)) = v[i];
            let ((pb, nb), (cb, prevb)) = v[j];
            // different previous infosets, and neither is the other's ancestor name
            if pa == pb && ca == cb && preva != prevb && preva.as_ref() != Some(nb) && prevb.as_ref() != Some(na) {
                cands.push((*pa, na.clone(), nb.clone()));
            }
        }
    }
    if cands.is_empty() {
        return None;
    }
    let (p, a, b) = r.pick(&cands).clone();
    fn rename(n: &MNode, p: usize, from: &str, to: &str) -> MNode {
        match n {
            MNode::T(x) => MNode::T(*x),
            MNode::C { info, outs } => MNode::C { info: info.clone(), outs: outs.iter().map(|(x, w, c)| (x.clone(), *w, rename(c, p, from, to))).collect() },
            MNode::P { player, info, acts } => MNode::P {
                player: *player,
                info: if *player == p && info == from { to.to_string() } else { info.clone() },
                acts: acts.iter().map(|(x, c)| (x.clone(), rename(c, p, from, to))).collect(),
            },
        }
    }
    Some(rename(g, p, &b, &a))
}

fn set_first_chance_weight(g: &MNode, w0: f64) -> Option<MNode> {
    fn go(n: &MNode, w0: f64, done: &mut bool) -> MNode {
        match n {
            MNode::T(x) => MNode::T(*x),
            MNode::C { info, outs } => {
                let hit = !*done && outs.len() > 1 && info.is_none();
                if hit {
                    *done = true;
                }
                MNode::C { info: info.clone(), outs: outs.iter().enumerate().map(|(k, (a, w, c))| (a.clone(), if hit && k == 0 { w0 } else { *w }, go(c, w0, done))).collect() }
            }
            MNode::P { player, info, acts } => MNode::P { player: *player, info: info.clone(), acts: acts.iter().map(|(a, c)| (a.clone(), go(c, w0, done))).collect() },
        }
    }
    let mut done = false;
    let r = go(g, w0, &mut done);
    if done {
        Some(r)
    } else {
        None
    }
}

/// every weight of the first chance node (unnamed; one outcome or several) becomes negative:
/// a common sign would cancel in a normalisation, but a negative weight is not a probability
fn negate_first_chance(g: &MNode) -> Option<MNode> {
    fn go(n: &MNode, done: &mut bool) -> MNode {
        match n {
            MNode::T(x) => MNode::T(*x),
            MNode::C { info, outs } => {
                let hit = !*done && info.is_none();
                if hit {
                    *done = true;
                }
                MNode::C { info: info.clone(), outs: outs.iter().map(|(a, w, c)| (a.clone(), if hit { -*w } else { *w }, go(c, done))).collect() }
            }
            MNode::P { player, info, acts } => MNode::P { player: *player, info: info.clone(), acts: acts.iter().map(|(a, c)| (a.clone(), go(c, done))).collect() },
        }
    }
    let mut done = false;
    let r = go(g, &mut done);
    if done {
        Some(r)
    } else {
        None
    }
}

fn empty_first_decision(g: &MNode) -> Option<MNode> {
    fn go(n: &MNode, done: &mut bool) -> MNode {
        match n {
            MNode::T(x) => MNode::T(*x),
            MNode::C { info, outs } => MNode::C { info: info.clone(), outs: outs.iter().map(|(a, w, c)| (a.clone(), *w, go(c, done))).collect() },
            MNode::P { player, info, acts } => {
                // only a node whose infoset occurs once (otherwise the Gambit parser objects for another reason, fine too)
                if !*done && acts.iter().all(|(_, c)| matches!(c, MNode::T(_))) {
                    *done = true;
                    return MNode::P { player: *player, info: info.clone(), acts: vec![] };
                }
                MNode::P { player: *player, info: info.clone(), acts: acts.iter().map(|(a, c)| (a.clone(), go(c, done))).collect() }
            }
        }
    }
    let mut done = false;
    let r = go(g, &mut done);
    if done {
        Some(r)
    } else {
        None
    }
}

// ------------------------------------------------------------ items to try

struct Item {
    bytes: Vec<u8>,
    /// the input is known to be invalid (then the strong oracle applies)
    known_invalid: bool,
    label: String,
    /// markers of which at least one must appear (None: any documented one)
    markers: Option<Vec<&'static str>>,
    as_directory: bool,
}

fn replace_nth(text: &str, pat: &str, with: &str, r: &mut Rng) -> Option<String> {
    let idx: Vec<usize> = text.match_indices(pat).map(|(i, _)| i).collect();
    if idx.is_empty() {
        return None;
    }
    let i = *r.pick(&idx);
    Some(format!("{}{}{}", &text[..i], with, &text[i + pat.len()..]))
}

fn trailing_ws(b: &[u8]) -> usize {
    b.iter().rev().take_while(|c| c.is_ascii_whitespace()).count()
}

impl CliRejects {
    fn items(&self, case: &CliCase, r: &mut Rng) -> Result<Vec<Item>, &'static str> {
        let kind = case.extra["fault"].as_str().unwrap_or("truncate");
        let valid = case.write();
        let text = String::from_utf8_lossy(&valid.bytes).into_owned();
        let fmt = case.format;
        let one = |bytes: Vec<u8>, label: &str, markers: Option<Vec<&'static str>>| Item { bytes, known_invalid: true, label: label.to_string(), markers, as_directory: false };
        let from_model = |g: MNode, label: &str| -> Item {
            let mut c = case.clone();
            c.game = g;
            let w = c.write();
            Item { bytes: w.bytes, known_invalid: true, label: label.to_string(), markers: None, as_directory: false }
        };
        match kind {
            "truncate" => {
                let len = valid.bytes.len() - trailing_ws(&valid.bytes);
                let mut ks: Vec<usize> = vec![1.min(len.saturating_sub(1)), len.saturating_sub(1), len / 2];
                for _ in 0..9 {
                    ks.push(r.below(len.max(1) as u64) as usize);
                }
                ks.sort();
                ks.dedup();
                Ok(ks.into_iter().filter(|k| *k < len).map(|k| one(valid.bytes[..k].to_vec(), &format!("file_truncated@{k}/{len}"), None)).collect())
            }
            "empty" => Ok(vec![one(vec![], "file_empty", None), one(b"  \n".to_vec(), "file_blank", None)]),
            "bad_utf8" => {
                let mut b = valid.bytes.clone();
                // inside a quoted name if there is one, else anywhere
                let pos = b.iter().position(|c| *c == b'"').map(|p| p + 1).unwrap_or(0).min(b.len().saturating_sub(1));
                if b.is_empty() {
                    return Err("not-applicable");
                }
                b[pos] = 0xFF;
                Ok(vec![one(b, "read_bad_utf8", None)])
            }
            "read_error_directory" => Ok(vec![Item { bytes: vec![], known_invalid: true, label: "read_error(EISDIR)".into(), markers: None, as_directory: true }]),
            "byteflip" => {
                let mut v = vec![];
                for _ in 0..10 {
                    if valid.bytes.is_empty() {
                        break;
                    }
                    let mut b = valid.bytes.clone();
                    let k = r.below(b.len() as u64) as usize;
                    let mask = *r.pick(&[0x01u8, 0x20, 0x80]);
                    b[k] ^= mask;
                    v.push(Item { bytes: b, known_invalid: false, label: format!("file_byteflip@{k}^{mask:#x}"), markers: None, as_directory: false });
                }
                Ok(v)
            }
            "json:drop_field" => {
                if fmt != Format::Json {
                    return Err("not-applicable");
                }
                let pats = ["\"player_one\": true, ", "\"player_one\": false, ", "\"infoset\": \""];
                let p = *r.pick(&pats);
                let t = if p.starts_with("\"infoset") {
                    // drop the (required) infoset of a player node: `"infoset": "name", "actions"`
                    let idx: Vec<usize> = text.match_indices("\"player_one\": ").map(|(i, _)| i).collect();
                    if idx.is_empty() {
                        return Err("not-applicable");
                    }
                    let i = *r.pick(&idx);
                    match text[i..].find("\"infoset\": ").map(|a| a + i) {
                        Some(a) => text[a..].find("\"actions\"").map(|b| format!("{}{}", &text[..a], &text[a + b..])),
                        None => None,
                    }
                } else {
                    replace_nth(&text, p, "", r)
                };
                Ok(vec![one(t.ok_or("not-applicable")?.into_bytes(), "file_semantic_json_required_field_dropped", Some(vec!["#json-error"]))])
            }
            "json:rename_field" => {
                if fmt != Format::Json {
                    return Err("not-applicable");
                }
                let (p, w) = *r.pick(&[("\"terminal\"", "\"terminall\""), ("\"actions\"", "\"action\""), ("\"outcomes\"", "\"outcome\""), ("\"player\"", "\"Player\""), ("\"state\"", "\"next\"")]);
                Ok(vec![one(replace_nth(&text, p, w, r).ok_or("not-applicable")?.into_bytes(), "file_semantic_json_field_renamed", Some(vec!["#json-error"]))])
            }
            "json:wrong_type" => {
                if fmt != Format::Json {
                    return Err("not-applicable");
                }
                let t = match r.below(3) {
                    0 => replace_nth(&text, "\"player_one\": true", "\"player_one\": 1", r),
                    1 => replace_nth(&text, "\"terminal\": ", "\"terminal\": \"x\", \"was\": ", r),
                    _ => replace_nth(&text, "\"prob\": ", "\"prob\": \"1\", \"was\": ", r),
                };
                Ok(vec![one(t.ok_or("not-applicable")?.into_bytes(), "file_semantic_json_wrong_type", Some(vec!["#json-error"]))])
            }
            "json:prob_missing" => {
                if fmt != Format::Json {
                    return Err("not-applicable");
                }
                Ok(vec![one(replace_nth(&text, "\"prob\": ", "\"weight\": ", r).ok_or("not-applicable")?.into_bytes(), "file_semantic_json_prob_missing", Some(vec!["#json-error"]))])
            }
            "json:duplicate_field" => {
                if fmt != Format::Json {
                    return Err("not-applicable");
                }
                // a field given twice (the first copy with a value that would be invalid or different)
                let t = match r.below(3) {
                    0 => replace_nth(&text, "\"prob\": ", "\"prob\": 0, \"prob\": ", r),
                    1 => replace_nth(&text, "\"player_one\": true", "\"player_one\": false, \"player_one\": true", r),
                    _ => replace_nth(&text, "{\"terminal\": ", "{\"terminal\": 7, \"terminal\": ", r),
                };
                Ok(vec![one(t.ok_or("not-applicable")?.into_bytes(), "file_semantic_json_duplicate_field", Some(vec!["#json-error"]))])
            }
            "json:trailing_value" => {
                if fmt != Format::Json {
                    return Err("not-applicable");
                }
                Ok(vec![one(format!("{} {{\"terminal\": 0}}\n", text.trim_end()).into_bytes(), "file_semantic_json_second_value", Some(vec!["#json-error"]))])
            }
            "both:prob_zero" => Ok(vec![from_model(set_first_chance_weight(&case.game, 0.0).ok_or("not-applicable")?, "file_semantic_prob_zero")]),
            "both:prob_negative" => {
                if fmt != Format::Json {
                    // a negative probability cannot be part of a distribution summing to one with positive rest... it can (2/1, -1/1): keep JSON only
                    return Err("not-applicable");
                }
                Ok(vec![from_model(set_first_chance_weight(&case.game, -1.0).ok_or("not-applicable")?, "file_semantic_prob_negative")])
            }
            "json:weights_all_negative" => {
                if fmt != Format::Json {
                    return Err("not-applicable");
                }
                Ok(vec![from_model(negate_first_chance(&case.game).ok_or("not-applicable")?, "file_semantic_all_weights_of_a_chance_node_negative")])
            }
            "both:empty_actions" => {
                if fmt != Format::Json {
                    return Err("not-applicable");
                }
                Ok(vec![from_model(empty_first_decision(&case.game).ok_or("not-applicable")?, "file_semantic_empty_actions")])
            }
            "both:actions_differ" => Ok(vec![from_model(rename_one_action(&case.game, r).ok_or("not-applicable")?, "file_semantic_actions_differ_within_infoset")]),
            "both:single_action_names_differ" => Ok(vec![from_model(rename_single_action(&case.game, r).ok_or("not-applicable")?, "file_semantic_single_action_infoset_with_two_action_names")]),
            "gambit:interior_payment_breaks_constant_sum" => {
                if fmt != Format::Gambit {
                    return Err("not-applicable");
                }
                // terminals share outcome numbers across paths; one interior node (not the root)
                // additionally pays player one far more than the tolerance allows
                let mut style = EfgStyle::plain();
                style.share_outcomes = true;
                let mut rr = Rng::new(case.style_seed);
                // few distinct payoffs, so that many terminals really do share an outcome number
                let coarse = case.game.map_payoffs(&mut |x| x.round());
                let plain = to_efg(&coarse, &mut rr, &style).text;
                let lines: Vec<&str> = plain.lines().collect();
                // node lines start at index 1 (header first); the first node line is the root
                // (a terminal written BEFORE the node is outside its subtree in this prefix-order
                // format: the payment then reaches some leaves and not others)
                let first_terminal = lines.iter().position(|l| l.starts_with("t ")).unwrap_or(usize::MAX);
                let cand: Vec<usize> = lines.iter().enumerate().filter(|(i, l)| *i > first_terminal && (l.starts_with("p ") || l.starts_with("c ")) && l.ends_with(" 0")).map(|(i, _)| i).collect();
                if cand.is_empty() {
                    return Err("not-applicable");
                }
                let i = *r.pick(&cand);
                let pay = crate::cli::write::dec(crate::cli::write::milli(2.0 * coarse.stats().d() + 5.0));
                let mut out: Vec<String> = lines.iter().map(|s| s.to_string()).collect();
                out[i] = format!("{} 9999 {{ {pay}, 0 }}", &lines[i][..lines[i].len() - 2]);
                Ok(vec![one((out.join("\n") + "\n").into_bytes(), "file_semantic_gambit_interior_payment_breaks_constant_sum", Some(vec!["#constant-sum"]))])
            }
            "both:chance_weights_differ" => Ok(vec![from_model(chance_weights_differ(&case.game, r).ok_or("not-applicable")?, "file_semantic_chance_weights_differ_within_infoset")]),
            "both:own_action_forgotten" => Ok(vec![from_model(forget_own_action(&case.game, r).ok_or("not-applicable")?, "file_semantic_own_action_forgotten")]),
            "both:one_action_here_several_there" => Ok(vec![from_model(single_and_multi(&case.game, r).ok_or("not-applicable")?, "file_semantic_one_action_here_several_there")]),
            "both:previous_infoset_differs" => Ok(vec![from_model(previous_infoset_differs(&case.game, r).ok_or("not-applicable")?, "file_semantic_previous_infoset_differs")]),
            "gambit:players" => {
                if fmt != Format::Gambit {
                    return Err("not-applicable");
                }
                if r.coin(0.2) {
                    // a well-formed game of ONE player: player two's nodes become player one's (own
                    // infoset numbers), every payoff list has one entry
                    let mut c = case.clone();
                    c.fancy = false;
                    let plain = String::from_utf8_lossy(&c.write().bytes).into_owned();
                    let mut o = String::new();
                    for (k, line) in plain.lines().enumerate() {
                        let mut l = line.to_string();
                        if k == 0 {
                            l = l.replacen("{ \"one\" \"two\" }", "{ \"one\" }", 1);
                        } else if let Some(rest) = line.strip_prefix("p \"\" 2 ") {
                            let (num, tail) = rest.split_once(' ').ok_or("not-applicable")?;
                            let n: u64 = num.parse().map_err(|_| "not-applicable")?;
                            l = format!("p \"\" 1 {} {}", n + 1000, tail);
                        } else if line.starts_with("t ") {
                            if let (Some(a), Some(b)) = (line.rfind("{ "), line.rfind(", ")) {
                                if b > a {
                                    l = format!("{} }}", &line[..b]);
                                }
                            }
                        }
                        o.push_str(&l);
                        o.push('\n');
                    }
                    return Ok(vec![one(o.into_bytes(), "file_semantic_gambit_one_player_well_formed", Some(vec!["only supports two player games", "#gambit-error"]))]);
                }
                if r.coin(0.3) {
                    // one player only (the payoff lists keep two entries: the parser objects, or the
                    // binary does; either way it is not a two-player game)
                    let t = text.replacen("{ \"one\" \"two\" }", "{ \"one\" }", 1);
                    return Ok(vec![one(t.into_bytes(), "file_semantic_gambit_one_player", Some(vec!["only supports two player games", "#gambit-error"]))]);
                }
                // three players: header and every payoff list get a third entry
                let mut t = text.replacen("{ \"one\" \"two\" }", "{ \"one\" \"two\" \"three\" }", 1);
                let mut out = String::new();
                for line in t.lines() {
                    if let (Some(a), true) = (line.rfind(" }"), line.contains("{ ") && (line.starts_with("t ") || line.matches('{').count() >= 2)) {
                        // last brace group of the line is a payoff list
                        let (head, tail) = line.split_at(a);
                        if line.starts_with("t ") || !head.ends_with('"') {
                            out.push_str(head);
                            out.push_str(" 0");
                            out.push_str(tail);
                            out.push('\n');
                            continue;
                        }
                    }
                    out.push_str(line);
                    out.push('\n');
                }
                t = out;
                Ok(vec![one(t.into_bytes(), "file_semantic_gambit_three_players", Some(vec!["only supports two player games", "#gambit-error"]))])
            }
            "gambit:not_constant_sum" => {
                if fmt != Format::Gambit {
                    return Err("not-applicable");
                }
                // plain style so that the text is predictable, but with a large constant in half of
                // the files: then ALL of player one's payoffs have one sign and are far from zero
                let st = case.game.stats();
                if st.leaves < 2 {
                    return Err("not-applicable");
                }
                let mut style = EfgStyle::plain();
                style.constant_milli = *r.pick(&[0i64, 20_000, -20_000, 200_000]);
                // sometimes with (zero-sum) payments on interior nodes: the tolerance is about the
                // payoffs the players end up with, not about the numbers in the outcome table
                if r.coin(0.5) {
                    style.p_interior_payoff = 0.4;
                    style.zero_sum_only = true;
                }
                let mut rr = Rng::new(case.style_seed);
                let plain = to_efg(&case.game, &mut rr, &style).text;
                let lines: Vec<&str> = plain.lines().collect();
                let tl: Vec<usize> = lines.iter().enumerate().filter(|(_, l)| l.starts_with("t ")).map(|(i, _)| i).collect();
                let i = *r.pick(&tl);
                let l = lines[i];
                let a = l.rfind(", ").ok_or("not-applicable")?;
                let b = l.rfind(" }").ok_or("not-applicable")?;
                let two: f64 = l[a + 2..b].parse().map_err(|_| "not-applicable")?;
                // the documented tolerance: the half-sums may spread over at most 0.1 % of the range
                // of player one's payoffs, i.e. one leaf may be off by delta <= range / 500.
                // Perturb either far beyond it or just beyond it (1.5 x).
                let range = st.d();
                let (delta, label) = if r.coin(0.5) { (2.0 * range + 5.0, "file_semantic_gambit_not_constant_sum") } else { (((range * 1000.0 * 3.0 / 1000.0).ceil() + 1.0) / 1000.0, "file_semantic_gambit_not_constant_sum_just_beyond_tolerance") };
                if !(delta > range / 500.0 * 1.2) {
                    return Err("not-applicable");
                }
                let bumped = format!("{}, {} }}", &l[..a], crate::cli::write::dec(crate::cli::write::milli(two + delta)));
                let mut out: Vec<String> = lines.iter().map(|s| s.to_string()).collect();
                out[i] = bumped;
                Ok(vec![one((out.join("\n") + "\n").into_bytes(), label, Some(vec!["#constant-sum"]))])
            }
            "gambit:payoff_huge" => {
                if fmt != Format::Gambit {
                    return Err("not-applicable");
                }
                let mut c = case.clone();
                c.fancy = false;
                let plain = String::from_utf8_lossy(&c.write().bytes).into_owned();
                let lines: Vec<&str> = plain.lines().collect();
                let tl: Vec<usize> = lines.iter().enumerate().filter(|(_, l)| l.starts_with("t ")).map(|(i, _)| i).collect();
                let i = *r.pick(&tl);
                let l = lines[i];
                let a = l.rfind("{ ").ok_or("not-applicable")?;
                let mut out: Vec<String> = lines.iter().map(|s| s.to_string()).collect();
                if r.coin(0.4) && lines.len() > 2 && (lines[1].starts_with("p ") || lines[1].starts_with("c ")) && lines[1].ends_with(" 0") {
                    // every number fits in a double, but what a player has been paid in total at the
                    // end of any play does not: 1e308 at the root and 1e308 again at every terminal
                    out[1] = format!("{} 9999 \"\" {{ 1e308, -1e308 }}", &lines[1][..lines[1].len() - 2]);
                    for &j in &tl {
                        if let Some(b) = lines[j].rfind("{ ") {
                            out[j] = format!("{}{{ 1e308, -1e308 }}", &lines[j][..b]);
                        }
                    }
                    return Ok(vec![one((out.join("\n") + "\n").into_bytes(), "file_semantic_gambit_payments_overflow_in_total", Some(vec!["non-finite payoffs", "#constant-sum", "#gambit-error"]))]);
                }
                out[i] = format!("{}{{ 1e400, -1e400 }}", &l[..a]);
                Ok(vec![one((out.join("\n") + "\n").into_bytes(), "file_semantic_gambit_payoff_1e400", Some(vec!["non-finite payoffs", "#constant-sum", "#gambit-error"]))])
            }
            "gambit:structure" => {
                if fmt != Format::Gambit {
                    return Err("not-applicable");
                }
                let mut c = case.clone();
                c.fancy = false;
                let plain = String::from_utf8_lossy(&c.write().bytes).into_owned();
                let t = match r.below(3) {
                    // chance probabilities no longer sum to one
                    0 => {
                        let idx: Vec<usize> = plain.match_indices("\" 1/").map(|(i, _)| i).collect();
                        if idx.is_empty() {
                            None
                        } else {
                            let i = *r.pick(&idx);
                            Some((format!("{}\" 2/{}", &plain[..i], &plain[i + 4..]), "file_semantic_gambit_chance_not_distribution", vec!["#gambit-error"]))
                        }
                    }
                    // an interior node refers to an outcome that is never given payoffs
                    1 => {
                        let lines: Vec<&str> = plain.lines().collect();
                        let pl: Vec<usize> = lines.iter().enumerate().filter(|(_, l)| (l.starts_with("p ") || l.starts_with("c ")) && l.ends_with(" 0")).map(|(i, _)| i).collect();
                        if pl.is_empty() {
                            None
                        } else {
                            let i = *r.pick(&pl);
                            let mut out: Vec<String> = lines.iter().map(|s| s.to_string()).collect();
                            out[i] = format!("{} 9999", &lines[i][..lines[i].len() - 2]);
                            Some((out.join("\n") + "\n", "file_semantic_gambit_outcome_without_payoffs", vec!["#gambit-error"]))
                        }
                    }
                    // an unnamed infoset whose number is another infoset's name
                    _ => {
                        let mut rr = Rng::new(case.style_seed);
                        let mut st = EfgStyle::plain();
                        st.p_unnamed = 0.5;
                        let w = to_efg(&case.game, &mut rr, &st);
                        let mut res = None;
                        'outer: for p in 0..2 {
                            let named: Vec<&String> = w.names[p].iter().filter(|(a, b)| a == b).map(|(a, _)| a).collect();
                            let unnamed: Vec<&String> = w.names[p].iter().filter(|(a, b)| a != b).map(|(_, b)| b).collect();
                            if let (Some(n), Some(u)) = (named.first(), unnamed.first()) {
                                // give the named infoset the number-string of the unnamed one as its name
                                let pat = format!("p \"\" {} ", p + 1);
                                let mut out = String::new();
                                for line in w.text.lines() {
                                    if line.starts_with(&pat) {
                                        out.push_str(&line.replace(&format!("\"{}\"", n.replace('\\', "\\\\").replace('"', "\\\"")), &format!("\"{u}\"")));
                                    } else {
                                        out.push_str(line);
                                    }
                                    out.push('\n');
                                }
                                res = Some((out, "file_semantic_gambit_unnamed_number_is_another_name", vec!["#duplicate-infosets", "#gambit-error"]));
                                break 'outer;
                            }
                        }
                        res
                    }
                };
                let (t, label, markers) = t.ok_or("not-applicable")?;
                Ok(vec![one(t.into_bytes(), label, Some(markers))])
            }
            _ => Err("not-applicable"),
        }
    }

    /// every truncation point, in-process, through the format's own reader and the auto reader
    fn enumerate_truncations(&self, case: &CliCase, m: &mut Metrics, h: &mut Fnv) -> Result<(), Verdict> {
        let valid = case.write();
        let len = valid.bytes.len() - trailing_ws(&valid.bytes);
        let stride = if len > 2048 { len / 2048 + 1 } else { 1 };
        let fmt = case.format;
        let mut k = 0;
        while k < len {
            let prefix = &valid.bytes[..k];
            for auto in [false, true] {
                let res = std::panic::catch_unwind(std::panic::AssertUnwindSafe(|| {
                    let mut rd: &[u8] = prefix;
                    if auto {
                        crate::real_main::verif::auto_from_reader(&mut rd)
                    } else if fmt == Format::Json {
                        crate::real_main::verif::json_from_reader(&mut rd)
                    } else {
                        crate::real_main::verif::gambit_from_reader(&mut rd)
                    }
                }));
                m.add("fault_file_truncated_in_process", 1);
                match res {
                    Ok(_) => {
                        return Err(viol(
                            "cli-accepted-invalid",
                            "truncated",
                            format!("the {} reader returned a game for the first {k} of {len} bytes of a valid {} file", if auto { "auto" } else { fmt.name() }, fmt.name()),
                        ))
                    }
                    Err(e) => {
                        let msg = e.downcast_ref::<String>().cloned().or_else(|| e.downcast_ref::<&str>().map(|s| s.to_string())).unwrap_or_default();
                        if documented(&msg).is_none() {
                            return Err(viol("cli-undocumented-diagnostic", "truncated", format!("prefix of {k} bytes: reader failed with {:?}", msg.chars().take(160).collect::<String>())));
                        }
                        h.u64(msg.len() as u64);
                    }
                }
            }
            // the stream fails with a hard I/O error after k bytes (the reader saw a valid prefix)
            for auto in [false, true] {
                let plan = ReadPlan { seed: k as u64 ^ case.style_seed, p_eintr: if k % 3 == 0 { 0.2 } else { 0.0 }, error_at: Some(k), eof_at: None, max_chunk: [1usize, 7, 64, 4096][k % 4] };
                let mut faulty = FaultyRead::new(&valid.bytes, plan);
                let res = std::panic::catch_unwind(std::panic::AssertUnwindSafe(|| {
                    if auto {
                        crate::real_main::verif::auto_from_reader(&mut faulty)
                    } else if fmt == Format::Json {
                        crate::real_main::verif::json_from_reader(&mut faulty)
                    } else {
                        crate::real_main::verif::gambit_from_reader(&mut faulty)
                    }
                }));
                m.add("fault_read_error_in_process", faulty.stats.hard_errors.min(1));
                m.add("fault_read_eintr_in_process", faulty.stats.eintr);
                match res {
                    Ok(_) => {
                        return Err(viol(
                            "cli-accepted-invalid",
                            "read-error",
                            format!("the {} reader returned a game although its input stream failed with an I/O error after {k} of {len} bytes", if auto { "auto" } else { fmt.name() }),
                        ))
                    }
                    Err(e) => {
                        let msg = e.downcast_ref::<String>().cloned().or_else(|| e.downcast_ref::<&str>().map(|s| s.to_string())).unwrap_or_default();
                        if documented(&msg).is_none() {
                            return Err(viol("cli-undocumented-diagnostic", "read-error", format!("I/O error after {k} bytes: reader failed with {:?}", msg.chars().take(160).collect::<String>())));
                        }
                        h.u64(msg.len() as u64);
                    }
                }
            }
            k += stride;
        }
        Ok(())
    }
}

fn structurally_valid(p: &Printed) -> Result<(), String> {
    for pl in 0..2 {
        for (i, m) in &p.profile[pl] {
            if m.is_empty() {
                return Err(format!("infoset {i:?} has no action"));
            }
            let tot: f64 = m.values().sum();
            if m.values().any(|q| !(q.is_finite() && *q > 0.0 && *q <= 1.0 + 1e-9)) || (tot - 1.0).abs() > 1e-9 {
                return Err(format!("infoset {i:?}: {m:?}"));
            }
        }
    }
    if !(p.regret.is_finite() && p.regrets.iter().all(|x| x.is_finite() && *x >= 0.0) && p.util.iter().all(|x| x.is_finite())) {
        return Err("non-finite or negative numbers".into());
    }
    Ok(())
}

impl Prop for CliRejects {
    type Case = CliCase;

    fn id(&self) -> &'static str {
        "C17"
    }

    fn level(&self) -> &'static str {
        "fault_enumeration"
    }

    fn runs(&self, tier: Tier) -> u64 {
        match tier {
            Tier::Quick => 12_000,
            Tier::Thorough => 240_000,
        }
    }

    fn gen(&self, r: &mut Rng, _tier: Tier, idx: u64) -> CliCase {
        let kind = KINDS[(idx % KINDS.len() as u64) as usize];
        let (game, shape) = gen::cli_game(r, if kind.starts_with("both") { 2 } else { 0 }, 80);
        let format = if kind.starts_with("json:") {
            Format::Json
        } else if kind.starts_with("gambit:") {
            Format::Gambit
        } else if r.coin(0.5) {
            Format::Json
        } else {
            Format::Gambit
        };
        let mut opts = random_opts(r, true);
        opts.p = Some(*r.pick(&[1usize, 1, 2]));
        if opts.t.is_none() {
            opts.t = Some(5);
        }
        let env = SimEnv::random(r);
        let mut route = Route::random(r, format);
        if kind == "read_error_directory" {
            route.stdin = false;
        }
        CliCase { game, shape: shape.to_string(), format, style_seed: r.next(), fancy: true, route, opts, env, extra: json!({"fault": kind, "seed": r.next().to_string()}) }
    }

    fn run(&self, case: &CliCase) -> RunOut {
        let mut m = Metrics::default();
        m.game_hash = case.game.hash();
        let mut h = Fnv::default();
        let traces: Vec<Trace> = vec![];
        let kind = case.extra["fault"].as_str().unwrap_or("truncate").to_string();
        let seed: u64 = case.extra["seed"].as_str().and_then(|s| s.parse().ok()).unwrap_or(1);
        let mut r = Rng::new(seed);
        if kind == "truncate" {
            if let Err(v) = self.enumerate_truncations(case, &mut m, &mut h) {
                return finish(m, h, v, traces);
            }
        }
        let items = match self.items(case, &mut r) {
            Ok(i) => i,
            Err(_) => return finish(m, h, Verdict::Skip("fault-not-applicable-to-this-file"), traces),
        };
        if let Some(k) = KINDS.iter().find(|k| **k == kind) {
            m.add(k, 1);
        }
        for it in items {
            let out = if it.as_directory {
                // a directory as the input "file": open succeeds, reading fails (a real read error)
                let scratch = Scratch::new();
                let dir = scratch.0.join(if case.route.ext.is_empty() { "game".to_string() } else { format!("game.{}", case.route.ext) });
                std::fs::create_dir_all(&dir).expect("mkdir");
                let mut args = vec!["-i".to_string(), dir.to_string_lossy().into_owned()];
                if case.route.out_file {
                    args.push("-o".into());
                    args.push(scratch.0.join("result.json").to_string_lossy().into_owned());
                }
                let mut route = case.route.clone();
                route.stdin = true; // no file written by the driver; stdin is empty
                route.out_file = false;
                let mut o = run_simcli(b"", &route, &case.opts, &case.env, &args);
                if case.route.out_file {
                    o.out_file = std::fs::read(scratch.0.join("result.json")).ok();
                }
                o
            } else {
                run_simcli(&it.bytes, &case.route, &case.opts, &case.env, &[])
            };
            proc_metrics(&mut m, &out);
            h.u64(out.status.unwrap_or(-1) as u64);
            h.u64(hash_output(&out.stdout));
            let counter: &'static str = match kind.as_str() {
                "truncate" => "fault_file_truncated",
                "empty" => "fault_file_empty",
                "bad_utf8" => "fault_read_bad_utf8",
                "read_error_directory" => "fault_read_error",
                "byteflip" => "fault_file_byteflip",
                k if k.starts_with("json:") => "fault_file_semantic_json",
                k if k.starts_with("gambit:") => "fault_file_semantic_gambit",
                _ => "fault_file_semantic_contract_rule",
            };
            m.add(counter, 1);
            m.nontrivial_key = Some(case.config_hash());
            let ok_exit = out.status == Some(0);
            let has_output = !out.stdout.is_empty() || out.out_file.as_ref().map(|b| !b.is_empty()).unwrap_or(false);
            // weak invariant, all kinds: never both a result and a failure
            if !ok_exit && has_output {
                return finish(m, h, viol("cli-result-and-failure", it.label.clone(), format!("{}: exit status {:?} but a result was written", it.label, out.status)), traces);
            }
            if ok_exit {
                if it.known_invalid {
                    let shown: String = String::from_utf8_lossy(&it.bytes).chars().take(300).collect();
                    return finish(
                        m,
                        h,
                        viol("cli-accepted-invalid", it.label.clone(), format!("{} under format {:?} / route {}: exit status 0 and a result for input that is not a valid game: {shown:?}", it.label, case.route.flag, case.route.to_json())),
                        traces,
                    );
                }
                m.add("byteflip_still_accepted", 1);
                let bytes: &[u8] = if case.route.out_file { out.out_file.as_deref().unwrap_or(&[]) } else { &out.stdout };
                match parse_printed(bytes).and_then(|p| structurally_valid(&p)) {
                    Ok(()) => {}
                    Err(e) => return finish(m, h, viol("cli-invalid-output", it.label.clone(), format!("{}: accepted, but the result is not a complete valid object: {e}", it.label)), traces),
                }
                continue;
            }
            m.add("rejected", 1);
            if it.known_invalid {
                let found = documented(&out.stderr);
                let acceptable = match (&it.markers, found) {
                    (_, None) => false,
                    // any documented category names a rule the input violates when several apply;
                    // where the corruption is specific, the specific category is required
                    (Some(ms), Some(_)) => ms.iter().any(|mk| out.stderr.contains(mk)) || case.route.flag.as_deref() != Some(case.format.name()) && out.stderr.contains("#auto-error"),
                    (None, Some(_)) => true,
                };
                if !acceptable {
                    let line: String = out.stderr.lines().filter(|l| !l.contains("serializing schedule") && !l.contains("test panicked in task") && !l.trim().is_empty()).take(3).collect::<Vec<_>>().join(" | ").chars().take(300).collect();
                    return finish(
                        m,
                        h,
                        viol("cli-undocumented-diagnostic", it.label.split('@').next().unwrap_or("").to_string(), format!("{} (format flag {:?}, file {}): rejected, but the diagnostic names no documented error category{}: {line}", it.label, case.route.flag, case.format.name(), it.markers.as_ref().map(|m| format!(" among {m:?}")).unwrap_or_default())),
                        traces,
                    );
                }
            }
        }
        finish(m, h, Verdict::Pass, traces)
    }

    cli_case_boilerplate!();

    fn shrink(&self, c: &CliCase) -> Vec<CliCase> {
        let mut v = shrink_cli_case(c);
        v.retain(|n| n.format == c.format);
        v
    }

    fn schedule_dependent(&self) -> bool {
        false
    }

    fn rule(&self) -> String {
        format!(
            "fault kinds are enumerated round-robin over generated valid files ({} kinds): truncation at EVERY byte offset (in-process through the format's reader and the auto reader; stride > 1 only above 2 KB) and a hard I/O error after EVERY byte offset (in-process, with EINTR and chunking), plus 12 offsets through the real process; a pre-existing -o file must stay untouched; empty / blank file; invalid UTF-8; a real read error (directory as input); byte flips (validity unknown: weak invariant only); JSON: required field dropped, field renamed, wrong type, prob missing, second value; JSON: every weight of a chance node negative; both formats: probability 0 / negative, empty action list, and each library contract rule (actions differ within an infoset, chance weights differ within a chance infoset, own action forgotten, one action here several there, previous infoset differs); Gambit: one / three players, constant-sum violation far beyond and just beyond (1.5 x) the documented tolerance, payoff 1e400, probabilities not summing to one, outcome without payoffs, unnamed infoset whose number is another infoset's name. Strong oracle (known-invalid input): exit status != 0, nothing on stdout, no -o file, stderr names a documented category. Weak invariant (all): never a result and a failure; exit 0 implies one complete valid result object. Non-trivial: the fault was applicable and a process ran; distinct = distinct case hashes",
            KINDS.len()
        )
    }

    fn assumptions(&self) -> Vec<String> {
        vec![
            "a strict prefix (beyond trailing whitespace) of a valid JSON value or .efg tree is never a valid game".into(),
            "documented categories: the README anchors #json-error #gambit-error #auto-error #duplicate-infosets #constant-sum #game-error and the two documented Gambit messages (two players, non-finite payoffs)".into(),
            "validity of a byte-flipped file is unknown, so only the weak invariant is judged there".into(),
        ]
    }

    fn extra_evidence(&self, agg: &Aggregate) -> Value {
        json!({"fault_kinds_enumerated": KINDS, "not_applicable_skips": agg.skips.get("fault-not-applicable-to-this-file").copied().unwrap_or(0)})
    }
}
