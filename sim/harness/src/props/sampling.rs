//! C10: sampling follows the declared distributions, one draw per infoset and pass, shared
//! within a chance infoset; the categorical sampler implements the inverse CDF.
use crate::common::*;
use crate::cond;
use crate::driver::{Aggregate, Prop};
use crate::gen;
use crate::lib_case_boilerplate;
use crate::model::MNode;
use crate::props::refine::{check_registration, compare_draws};
use crate::props::threads::rayon_metrics;
use crate::refmodel::{expected_player_index, reference, RefCfg};
use crate::rng::{Fnv, Rng};
use crate::sched::{simulate, SchedSpec};
use crate::shrink::shrink_lib_case;
use crate::solve::{observed_solve, step_budget, SolveCfg, SolveOut};
use cfr_verif_seam::{Cores, KIND_CHANCE, KIND_PLAYER};
use rand::RngCore;
use serde_json::{json, Value};
use std::collections::BTreeMap;
use std::sync::Arc;

pub struct Sampling;

/// an `RngCore` that hands out scripted 64-bit words (then zeros)
struct Scripted(Vec<u64>, usize);

impl RngCore for Scripted {
    fn next_u32(&mut self) -> u32 {
        (self.next_u64() >> 32) as u32
    }
    fn next_u64(&mut self) -> u64 {
        let v = self.0.get(self.1).copied().unwrap_or(0);
        self.1 += 1;
        v
    }
    fn fill_bytes(&mut self, dest: &mut [u8]) {
        for c in dest.chunks_mut(8) {
            let b = self.next_u64().to_le_bytes();
            c.copy_from_slice(&b[..c.len()]);
        }
    }
    fn try_fill_bytes(&mut self, dest: &mut [u8]) -> Result<(), rand::Error> {
        self.fill_bytes(dest);
        Ok(())
    }
}

/// the 64-bit word that makes rand's `gen::<f64>()` return exactly `u` (a multiple of 2^-53)
fn word_for(u: f64) -> u64 {
    ((u * (1u64 << 53) as f64) as u64) << 11
}

fn weight_vector(r: &mut Rng, n: usize) -> Vec<f64> {
    let mut w: Vec<f64> = (0..n)
        .map(|_| match r.below(8) {
            0 => 0.0,
            1 => 1e-9,
            2 => 1e-3,
            _ => 0.05 + r.f(),
        })
        .collect();
    if w.iter().all(|x| *x == 0.0) {
        w[0] = 1.0;
    }
    if r.coin(0.15) {
        // one entry carries almost everything
        let i = r.below(n as u64) as usize;
        w[i] = 1e6;
    }
    let tot: f64 = w.iter().sum();
    w.iter().map(|x| x / tot).collect()
}

fn hoeffding_eps(n: usize, outcomes: usize) -> f64 {
    // P(|freq - p| > eps) <= 2 exp(-2 n eps^2) per outcome; total failure probability 1e-12
    let delta = 1e-12 / outcomes as f64;
    ((2.0 / delta).ln() / (2.0 * n as f64)).sqrt()
}

impl Sampling {
    fn run_scripted(&self, case: &LibCase, mut m: Metrics, mut h: Fnv) -> RunOut {
        let seed: u64 = case.extra["seed"].as_str().and_then(|s| s.parse().ok()).unwrap_or(0);
        let mut r = Rng::new(seed);
        let n = r.usize_in(1, 8);
        let probs = weight_vector(&mut r, n);
        // cumulative boundaries as the documented inverse CDF sees them
        let mut cum = vec![0.0; n];
        let mut acc = 0.0;
        for i in 0..n {
            acc += probs[i];
            cum[i] = acc;
        }
        let ulp = 1.0 / (1u64 << 53) as f64;
        let mut us: Vec<f64> = (0..64).map(|i| i as f64 / 64.0).collect();
        us.push(1.0 - ulp);
        for _ in 0..32 {
            us.push((r.next() >> 11) as f64 * ulp);
        }
        for c in &cum[..n - 1] {
            for d in [-2.0, -1.0, 0.0, 1.0, 2.0] {
                let u = (c / ulp).round() * ulp + d * ulp;
                if (0.0..1.0).contains(&u) {
                    us.push(u);
                }
            }
        }
        m.nontrivial_key = Some(crate::rng::mix(seed, 0xC10));
        for u in us {
            let mut rng = Scripted(vec![word_for(u)], 0);
            let got = std::panic::catch_unwind(std::panic::AssertUnwindSafe(|| cfr::verif_multinomial_sample(&probs, &mut rng)));
            let got = match got {
                Ok(g) => g,
                Err(_) => return finish(m, h, viol("panic:categorical-sampler", "", format!("sampler panicked for probs {probs:?} u={u}")), vec![]),
            };
            h.u64(got as u64);
            m.add("scripted_variates", 1);
            // documented: index k exactly when u lies in the k-th cumulative interval
            // (cum_{k-1}, cum_k]; the last index catches everything above
            let mut want = n - 1;
            for k in 0..n - 1 {
                if u <= cum[k] {
                    want = k;
                    break;
                }
            }
            // at a boundary (within 2 ulp, or within the rounding of the running subtraction)
            // either neighbour is accepted
            let near = |k: usize| k < n - 1 && (u - cum[k]).abs() <= 4.0 * ulp * (1.0 + n as f64);
            let ok = got == want || (got + 1 == want && near(got)) || (want + 1 == got && near(want)) || {
                // several boundaries within rounding of each other (zero-probability entries)
                let (lo, hi) = (got.min(want), got.max(want));
                (lo..hi).all(near)
            };
            if got >= n {
                return finish(m, h, viol("categorical-sampler-out-of-range", "", format!("probs {probs:?} u={u}: index {got}")), vec![]);
            }
            if !ok {
                return finish(
                    m,
                    h,
                    viol("categorical-sampler-wrong-interval", "", format!("probs {probs:?} (cumulative {cum:?}) u={u:e}: sampler returned index {got}, the inverse CDF gives {want}")),
                    vec![],
                );
            }
        }
        finish(m, h, Verdict::Pass, vec![])
    }

    /// The one component every other run replaces: the library's own source of random numbers.
    /// Here the seam hands out no generator (the code draws from whatever it draws from in
    /// production) and only listens. Two chance infosets on one path, each a uniform choice
    /// among the same number of outcomes, are drawn once per pass; the solve is made twice on
    /// one simulated thread. What the draws ARE is not repeatable and is kept out of the event
    /// log; the verdict is: the two infosets' streams are not one and the same stream, and the
    /// second call does not replay the first (each would happen by chance with probability
    /// below 2^-250).
    fn run_entropy(&self, case: &LibCase, mut m: Metrics, mut h: Fnv) -> RunOut {
        let n = case.extra["outcomes"].as_u64().unwrap_or(2) as usize;
        let inner = |k: usize| MNode::C { info: Some("D1".into()), outs: (0..n).map(|i| (format!("o{i}"), 1.0, MNode::T((k * n + i) as f64))).collect() };
        let game = MNode::C { info: None, outs: (0..n).map(|k| (format!("o{k}"), 1.0, inner(k))).collect() };
        let mut cfg = SolveCfg::new(case.method, ParamSpec::Preset("vanilla"), case.t, 0.0, 1, 0);
        cfg.sampling_seed = None;
        cfg.record_draws = true;
        let model = Arc::new(game);
        let c1 = cfg.clone();
        let sim = simulate(&case.sched, move || -> Result<(SolveOut, SolveOut), String> {
            let game = model.build().map_err(|e| format!("{e:?}"))?;
            Ok((observed_solve(&game, &c1), observed_solve(&game, &c1)))
        });
        m.add("executions", 1);
        h.u64(n as u64);
        h.u64(case.method as u64);
        m.nontrivial_key = Some(crate::rng::mix(0xE27, (n as u64) << 8 | case.method as u64));
        let (a, b) = match sim.value {
            Err(f) => return finish(m, h, viol(f.class(), "", f.message().lines().next().unwrap_or("").to_string()), vec![]),
            Ok(Err(e)) => return finish(m, h, Verdict::Harness(format!("entropy game rejected: {e}")), vec![]),
            Ok(Ok(o)) => o,
        };
        let streams = |o: &SolveOut| -> BTreeMap<usize, BTreeMap<u64, usize>> {
            let mut s: BTreeMap<usize, BTreeMap<u64, usize>> = BTreeMap::new();
            for d in o.seam.draws.iter().filter(|d| d.kind == KIND_CHANCE) {
                s.entry(d.vid).or_default().insert(d.pass, d.result);
            }
            s
        };
        let (sa, sb) = (streams(&a), streams(&b));
        m.add("own_entropy_draws_listened_to", (a.seam.draws.len() + b.seam.draws.len()) as u64);
        if sa.len() != 2 || sa.values().any(|s| s.len() < 250) {
            return finish(m, h, viol("wrong-number-of-draws", "own-entropy", format!("expected two chance infosets drawn in at least 250 passes each, saw {:?}", sa.iter().map(|(v, s)| (*v, s.len())).collect::<Vec<_>>())), vec![]);
        }
        let vids: Vec<usize> = sa.keys().cloned().collect();
        let common: Vec<u64> = sa[&vids[0]].keys().filter(|p| sa[&vids[1]].contains_key(*p)).cloned().collect();
        if common.len() >= 250 && common.iter().all(|p| sa[&vids[0]][p] == sa[&vids[1]][p]) {
            return finish(m, h, viol("chance-infosets-share-one-stream", "own-entropy", format!("{:?}: two different chance infosets drew the same outcome index in each of {} passes", case.method, common.len())), vec![]);
        }
        for v in &vids {
            if let Some(s2) = sb.get(v) {
                let both: Vec<u64> = sa[v].keys().filter(|p| s2.contains_key(*p)).cloned().collect();
                if both.len() >= 250 && both.iter().all(|p| sa[v][p] == s2[p]) {
                    return finish(m, h, viol("second-call-replays-the-draws", "own-entropy", format!("{:?}: a second call on the same thread drew exactly the first call's {} outcomes at a chance infoset", case.method, both.len())), vec![]);
                }
            }
        }
        finish(m, h, Verdict::Pass, vec![])
    }

    fn run_frequency(&self, case: &LibCase, mut m: Metrics, mut h: Fnv) -> RunOut {
        let seed: u64 = case.extra["seed"].as_str().and_then(|s| s.parse().ok()).unwrap_or(0);
        let which = case.extra["site"].as_str().unwrap_or("chance-sampled").to_string();
        let mut r = Rng::new(seed);
        let n = r.usize_in(2, 6);
        let draws: u64 = case.t;
        let (game, method, params, weights): (MNode, Method, ParamSpec, Vec<f64>) = match which.as_str() {
            "player-external" => {
                // player two's regrets stay exactly zero (equal payoffs), so with the uniform
                // fallback its strategy stays uniform; it is sampled once per iteration
                let g = MNode::P { player: 1, info: "Y".into(), acts: (0..n).map(|i| (format!("a{i}"), MNode::T(0.5))).collect() };
                (g, Method::External, ParamSpec::Preset("vanilla"), vec![1.0 / n as f64; n])
            }
            site => {
                let w: Vec<f64> = (0..n).map(|i| if i == 0 && r.coin(0.3) { 1e-3 } else { 0.1 + r.f() }).collect();
                let tot: f64 = w.iter().sum();
                let g = MNode::C { info: None, outs: (0..n).map(|i| (format!("o{i}"), w[i], MNode::T(i as f64))).collect() };
                (g, if site == "chance-external" { Method::External } else { Method::Sampled }, ParamSpec::Preset("vanilla"), w.iter().map(|x| x / tot).collect())
            }
        };
        let mut cfg = SolveCfg::new(method, params, draws, 0.0, 1, case.sampling_seed);
        cfg.record_draws = true;
        let model = Arc::new(game);
        let c1 = cfg.clone();
        let sim = simulate(&case.sched, move || -> Result<SolveOut, String> {
            let game = model.build().map_err(|e| format!("{e:?}"))?;
            Ok(observed_solve(&game, &c1))
        });
        m.add("executions", 1);
        h.u64(sim.sched.trace.hash());
        let out = match sim.value {
            Err(f) => return finish(m, h, viol(f.class(), "", f.message().lines().next().unwrap_or("").to_string()), vec![]),
            Ok(Err(e)) => return finish(m, h, Verdict::Harness(format!("frequency game rejected: {e}")), vec![]),
            Ok(Ok(o)) => o,
        };
        out.hash_into(&mut h);
        let kind = if which == "player-external" { KIND_PLAYER } else { KIND_CHANCE };
        let mut counts = vec![0u64; n];
        let mut total = 0u64;
        for d in out.seam.draws.iter().filter(|d| d.kind == kind) {
            if d.result >= n {
                return finish(m, h, viol("draw-out-of-range", which.clone(), format!("index {} of {n}", d.result)), vec![]);
            }
            counts[d.result] += 1;
            total += 1;
        }
        m.add("frequency_draws", total);
        m.nontrivial_key = Some(crate::rng::mix(seed, case.sampling_seed));
        // external sampling makes two passes per iteration, chance is drawn in both
        let expect_draws = if which == "chance-external" { 2 * draws } else { draws };
        if total != expect_draws {
            return finish(m, h, viol("wrong-number-of-draws", which.clone(), format!("{total} draws in {draws} iterations, expected {expect_draws}")), vec![]);
        }
        let eps = hoeffding_eps(total as usize, n);
        for i in 0..n {
            let f = counts[i] as f64 / total as f64;
            m.max("max_frequency_deviation_over_hoeffding_band", (f - weights[i]).abs() / eps);
            if (f - weights[i]).abs() > eps {
                return finish(
                    m,
                    h,
                    viol("frequency-outside-band", which.clone(), format!("{which}: outcome {i} drawn with frequency {f:.5} over {total} draws, declared probability {:.5} (band +-{eps:.5}; weights {weights:?})", weights[i])),
                    vec![],
                );
            }
        }
        finish(m, h, Verdict::Pass, vec![])
    }

    fn run_observer(&self, case: &LibCase, mut m: Metrics, mut h: Fnv) -> RunOut {
        let st = case.game.stats();
        let mut cfg = SolveCfg::new(case.method, case.params.clone(), case.t, 0.0, case.k, case.sampling_seed);
        cfg.buggify = case.buggify;
        cfg.record_draws = true;
        cfg.step_budget = step_budget(st.nodes, case.t, case.k);
        let model = Arc::new(case.game.clone());
        let c1 = cfg.clone();
        let sim = simulate(&case.sched, move || -> Result<SolveOut, String> {
            let game = model.build().map_err(|e| format!("{e:?}"))?;
            Ok(observed_solve(&game, &c1))
        });
        m.add("executions", 1);
        m.add("sched_steps", sim.sched.steps);
        m.add("sched_preemptions", sim.sched.preemptions);
        m.interleavings.push(sim.sched.trace.hash());
        h.u64(sim.sched.trace.hash());
        let traces = vec![sim.sched.trace.clone()];
        let out = match sim.value {
            Err(f) => return finish(m, h, viol(f.class(), "", f.message().lines().next().unwrap_or("").to_string()), traces),
            Ok(Err(_)) => return finish(m, h, Verdict::Skip("game-rejected"), traces),
            Ok(Ok(o)) => o,
        };
        out.hash_into(&mut h);
        rayon_metrics(&mut m, &out.rayon);
        if out.result.is_err() {
            return finish(m, h, viol("solve-error", "", format!("{:?}", out.result.as_ref().err())), traces);
        }
        let draws = &out.seam.draws;
        m.add("draws_observed", draws.len() as u64);
        if !draws.is_empty() {
            m.nontrivial_key = Some(case.config_hash() ^ traces[0].hash());
        }
        let nchance = draws.iter().filter(|d| d.kind == KIND_CHANCE).count();
        let nplayer = draws.iter().filter(|d| d.kind == KIND_PLAYER).count();
        match case.method {
            Method::Full => {
                if !draws.is_empty() || out.seam.stats.chance_sample_calls + out.seam.stats.player_sample_calls > 0 {
                    return finish(m, h, viol("unsampled-method-draws", "", format!("Full made {nchance} chance and {nplayer} player draws")), traces);
                }
                m.add("probe_full_runs_without_draws", 1);
                return finish(m, h, Verdict::Pass, traces);
            }
            Method::Sampled => {
                if nplayer > 0 || out.seam.stats.player_sample_calls > 0 {
                    return finish(m, h, viol("chance-sampled-method-samples-players", "", format!("{nplayer} player draws")), traces);
                }
            }
            Method::External => {}
        }
        // one draw per (site, pass)
        if let Some(((kind, vid, pass), c)) = out.seam.draw_counts.iter().find(|(_, c)| **c > 1) {
            return finish(m, h, viol("draw-twice", "", format!("{c} draws at kind={kind} infoset={vid} pass={pass}")), traces);
        }
        if out.seam.chance_inconsistent > 0 {
            return finish(m, h, viol("chance-visit-inconsistent", "", "two nodes of one chance infoset followed different outcomes in one pass".to_string()), traces);
        }
        m.add("probe_chance_cache_hits", out.seam.stats.chance_cache_hits);
        let game = case.game.build().expect("accepted before");
        let dump = game.verif_dump();
        if let Err(e) = check_registration(&out, &dump, case.method) {
            return finish(m, h, Verdict::Harness(e), traces);
        }
        let tree = match cond::compile_for(&case.game, &game) {
            Ok(t) => t,
            Err(e) => return finish(m, h, viol("library-tree-differs-from-model", "", e), traces),
        };
        // declared distribution: weights presented at a chance site = declared weights normalised
        for d in draws.iter().filter(|d| d.kind == KIND_CHANCE) {
            let decl = &tree.chance_probs[d.vid];
            if decl.len() != d.weights.len() || decl.iter().zip(&d.weights).any(|(a, b)| (a - b).abs() > 1e-12 * a.abs().max(1e-300)) {
                return finish(m, h, viol("draw-from-wrong-weights", "chance", format!("chance infoset {}: sampler built on {:?}, declared (normalised) {:?}", d.vid, d.weights, decl)), traces);
            }
        }
        // categorical sampler in situ: index = inverse CDF of the weights presented at the keyed variate
        for d in draws.iter().filter(|d| d.kind == KIND_PLAYER) {
            let (want, near) = expected_player_index(case.sampling_seed, d);
            m.add("player_draws_checked_against_inverse_cdf", 1);
            let tot: f64 = d.weights.iter().sum();
            if (tot - 1.0).abs() > 1e-9 || d.weights.iter().any(|w| !(*w >= 0.0)) {
                return finish(m, h, viol("draw-from-wrong-weights", "player", format!("weights presented are not a distribution: {:?}", d.weights)), traces);
            }
            if d.result != want && !near {
                return finish(
                    m,
                    h,
                    viol("categorical-sampler-wrong-interval", "in-situ", format!("infoset {} pass {}: weights {:?}: sampler returned {}, inverse CDF at the keyed variate gives {}", d.vid, d.pass, d.weights, d.result, want)),
                    traces,
                );
            }
        }
        // the draws are exactly the documented ones (sites, passes, weights = current strategy, results)
        let r = reference(&tree, &RefCfg { method: case.method, params: case.params.documented(), t: case.t, thresh: 0.0, seed: case.sampling_seed, tie: cond::tie_policy() });
        if r.ill.is_some() {
            m.add("ill_conditioned_skipped", 1);
            return finish(m, h, Verdict::Skip("ill-conditioned"), traces);
        }
        if let Err(e) = compare_draws(draws, &r.draws) {
            return finish(m, h, viol("draws-differ-from-documented", "", format!("{} {} T={} K={}: {e}", case.method.name(), case.params.name(), case.t, case.k)), traces);
        }
        finish(m, h, Verdict::Pass, traces)
    }
}

impl Prop for Sampling {
    type Case = LibCase;

    fn id(&self) -> &'static str {
        "C10"
    }

    fn runs(&self, tier: Tier) -> u64 {
        match tier {
            Tier::Quick => 250_000,
            Tier::Thorough => 5_000_000,
        }
    }

    fn gen(&self, r: &mut Rng, tier: Tier, idx: u64) -> LibCase {
        let mut case = LibCase {
            game: MNode::T(0.0),
            shape: "none".into(),
            method: Method::Sampled,
            params: ParamSpec::Preset("vanilla"),
            t: 1,
            thresh: 0.0,
            k: 1,
            cores: Cores::Real,
            sampling_seed: r.next(),
            fail_build: false,
            buggify: r.coin(0.8),
            sched: SchedSpec::swarm(r),
            extra: Value::Null,
        };
        let freq_every = match tier {
            Tier::Quick => 200,
            Tier::Thorough => 500,
        };
        if idx % 1000 == 11 {
            // the library's own entropy source, unreplaced: see run_entropy
            let n = r.usize_in(2, 3);
            case.method = *r.pick(&[Method::Sampled, Method::External]);
            case.t = 300;
            case.sched = SchedSpec::nopreempt();
            case.extra = json!({"kind": "entropy", "outcomes": n});
        } else if idx % freq_every == 7 {
            let site = *r.pick(&["chance-sampled", "chance-external", "player-external"]);
            case.t = 100_000;
            case.sched = SchedSpec::nopreempt();
            case.extra = json!({"kind": "frequency", "site": site, "seed": r.next().to_string()});
        } else if idx % 10 == 3 {
            case.sched = SchedSpec::nopreempt();
            case.extra = json!({"kind": "scripted", "seed": r.next().to_string()});
        } else {
            let shapes = ["poker", "poker", "mixed", "degenerate", "simultaneous", "lopsided", "tiny", "chain"];
            let (game, shape) = gen::game_with(r, &shapes, 0, |s| s.max_nodes = s.max_nodes.min(150));
            case.game = game;
            case.shape = shape.to_string();
            case.method = *r.pick(&[Method::Full, Method::Sampled, Method::Sampled, Method::External, Method::External, Method::External]);
            case.params = crate::props::threads::random_params(r);
            case.t = r.usize_in(1, 30) as u64;
            case.k = *r.pick(&[1usize, 1, 2, 3]);
            case.extra = json!({"kind": "observer"});
        }
        case
    }

    fn run(&self, case: &LibCase) -> RunOut {
        let mut m = Metrics::default();
        m.game_hash = case.game.hash();
        let h = Fnv::default();
        match case.extra["kind"].as_str().unwrap_or("observer") {
            "scripted" => {
                m.add("runs_scripted_variates", 1);
                self.run_scripted(case, m, h)
            }
            "frequency" => {
                m.add("runs_frequency", 1);
                self.run_frequency(case, m, h)
            }
            "entropy" => {
                m.add("runs_own_entropy_source", 1);
                self.run_entropy(case, m, h)
            }
            _ => {
                m.add("runs_observer", 1);
                self.run_observer(case, m, h)
            }
        }
    }

    lib_case_boilerplate!();

    fn shrink(&self, c: &LibCase) -> Vec<LibCase> {
        if c.extra["kind"].as_str() == Some("observer") {
            let mut v = shrink_lib_case(c);
            v.retain(|n| n.thresh == 0.0);
            if c.k == 2 {
                let mut n = c.clone();
                n.k = 1;
                v.insert(0, n);
            }
            v
        } else if c.extra["kind"].as_str() == Some("frequency") && c.t > 20_000 {
            let mut n = c.clone();
            n.t /= 2;
            vec![n]
        } else {
            vec![]
        }
    }

    fn rule(&self) -> String {
        "four kinds of run. own-entropy (1 in 1000): the seam hands out no generator and only listens to the library's own source: two uniform chance infosets on one path x 300 iterations x two calls on one thread; their streams must not coincide and the second call must not replay the first (values kept out of the event log). observer (most): generated game x method x parameter set x T <= 30 x K in {1,2,3} x sampling seed x schedule, solved in one simulated execution with every sampling site observed: Full makes no draws, Sampled no player draws, one draw per (site, pass), chance weights presented = declared weights normalised, every player draw = inverse CDF of the weights presented at the keyed variate, and the whole draw log equals the documented algorithm's (reference model). scripted (1 in 10): a weight vector of length 1..8 (zeros, 1e-9, dominant entries) x ~100 uniform variates incl. every cumulative boundary +-2 ulp fed to the private categorical sampler (hook H7) through a scripted RngCore. frequency (1 in 200): 1e5 keyed draws through the real chance / opponent sampling code on a one-node game, Hoeffding band with total failure probability 1e-12. Non-trivial: >= 1 draw observed / every scripted or frequency run; distinct = distinct (configuration, schedule) or weight-vector hashes".into()
    }

    fn assumptions(&self) -> Vec<String> {
        vec![
            "entropy is the keyed SplitMix64 behind hooks H3/H4; the production samplers (rand_distr alias table, private Multinomial) run unmodified on it".into(),
            "at a cumulative boundary (within a few ulp) either neighbouring index is accepted".into(),
        ]
    }

    fn components(&self) -> Value {
        json!({"real": ["SampledChance (alias table)", "CachedInfoset::sample", "Multinomial::sample", "all three solvers"], "stub": ["thread_rng entropy (keyed SplitMix64 / scripted words) - except in the own-entropy runs (1 in 1000), where the library draws from its own source and the seam only listens", "rayon, AtomicF64, Mutex stand-ins when K > 1"]})
    }

    fn extra_evidence(&self, _agg: &Aggregate) -> Value {
        Value::Null
    }
}
