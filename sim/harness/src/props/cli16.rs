//! C16: options and input formats of the binary mean what the help text says.
use crate::cli::*;
use crate::cli_case_boilerplate;
use crate::common::*;
use crate::cond;
use crate::driver::{Aggregate, Prop};
use crate::eval;
use crate::gen;
use crate::model::{check_profile, named, profile_diff, LibGame, Profile};
use crate::props::cli15::{faithful, proc_metrics, random_opts, result_bytes, shrink_cli_case, CliCase};
use crate::props::threads::PROB_TOL;
use crate::rng::{Fnv, Rng};
use crate::sched::{simulate, Policy, SchedSpec, Trace};
use crate::solve::{observed_solve, SolveCfg, SolveOut};
use cfr::{RegretParams, SolveMethod};
use cfr_verif_seam::Cores;
use serde_json::{json, Value};
use std::sync::Arc;

pub struct CliOptions;

fn ulp_eq(a: f64, b: f64) -> bool {
    // equal up to the last few places: serde_json's number parser may be off by one ulp, and with
    // the default clip threshold (0) the binary may legitimately print the re-normalised copy of
    // the library's profile (each probability divided by an infoset total of 1 +- a few ulp)
    // when rounding happens to make its regret a shade lower
    a == b || (a - b).abs() <= 64.0 * f64::EPSILON * a.abs().max(b.abs()).max(f64::MIN_POSITIVE)
}

fn profiles_ulp_equal(a: &Profile, b: &Profile) -> bool {
    for p in 0..2 {
        if a[p].len() != b[p].len() {
            return false;
        }
        for ((ia, ma), (ib, mb)) in a[p].iter().zip(b[p].iter()) {
            if ia != ib || ma.len() != mb.len() {
                return false;
            }
            for ((xa, qa), (xb, qb)) in ma.iter().zip(mb.iter()) {
                if xa != xb || !ulp_eq(*qa, *qb) {
                    return false;
                }
            }
        }
    }
    true
}

fn effective_threads(opts: &Opts, env: &SimEnv) -> usize {
    match opts.p.unwrap_or(0) {
        0 => match env.cores {
            Cores::Unknown => 1,
            Cores::Count(n) => n.max(1),
            Cores::Real => std::thread::available_parallelism().map(|n| n.get()).unwrap_or(1),
        },
        n => n,
    }
}

fn sched_of(env: &SimEnv) -> SchedSpec {
    let policy = match env.policy.as_str() {
        "random" => Policy::Random,
        s if s.starts_with("pct:") => {
            let mut it = s[4..].split(':');
            Policy::Pct { changes: it.next().and_then(|x| x.parse().ok()).unwrap_or(1), horizon: it.next().and_then(|x| x.parse().ok()).unwrap_or(1000) }
        }
        _ => Policy::NoPreempt,
    };
    SchedSpec { policy, seed: env.sched_seed, trace: None }
}

/// What `Game::solve` returns for the options as the help text describes them, on the game
/// the binary's own reader makes of the bytes (so that the comparison is about the options,
/// not about one-ulp differences between two ways of building the tree; faithfulness of the
/// readers to the file is C15 and the `encodings` runs).
fn library_result(case: &CliCase, bytes: &[u8]) -> Result<SolveOut, String> {
    let opts = &case.opts;
    let t = opts.t_or_default();
    let mut cfg = SolveCfg::new(
        opts.method_or_default(),
        ParamSpec::Preset(opts.preset_or_default()),
        if t == 0 { u64::MAX } else { t },
        opts.r.unwrap_or(0.0),
        opts.p.unwrap_or(0),
        case.env.sampling_seed,
    );
    cfg.cores = case.env.cores;
    cfg.buggify = case.env.buggify;
    let fmt = case.format;
    let parsed = std::panic::catch_unwind(std::panic::AssertUnwindSafe(|| {
        let mut rd: &[u8] = bytes;
        if fmt == Format::Json {
            crate::real_main::verif::json_from_reader(&mut rd)
        } else {
            crate::real_main::verif::gambit_from_reader(&mut rd)
        }
    }))
    .map_err(|_| "the binary's reader rejected the valid file in-process".to_string())?;
    let game = Arc::new(parsed.0);
    let sim = simulate(&sched_of(&case.env), move || observed_solve(&game, &cfg));
    match sim.value {
        Ok(o) => Ok(o),
        Err(f) => Err(f.message().to_string()),
    }
}

/// the harness's own reading of "prune actions played less than h": keep the actions played
/// more than h, rescaled; None for an infoset where no action survives
fn own_truncation(p: &Profile, h: f64) -> (Profile, bool) {
    let mut res: Profile = Default::default();
    let mut all_survive = true;
    for pl in 0..2 {
        for (i, m) in &p[pl] {
            let tot: f64 = m.values().filter(|q| **q > h).sum();
            if tot > 0.0 {
                res[pl].insert(i.clone(), m.iter().filter(|(_, q)| **q > h).map(|(a, q)| (a.clone(), q / tot)).collect());
            } else {
                all_survive = false;
                res[pl].insert(i.clone(), m.clone());
            }
        }
    }
    (res, all_survive)
}

impl CliOptions {
    fn spawn(&self, case: &CliCase, m: &mut Metrics, h: &mut Fnv) -> Result<(Printed, ProcOut, crate::props::cli15::Written), Verdict> {
        let w = case.write();
        let out = run_simcli(&w.bytes, &case.route, &case.opts, &case.env, &[]);
        proc_metrics(m, &out);
        h.u64(out.status.unwrap_or(-1) as u64);
        h.u64(hash_output(&out.stdout));
        if out.status != Some(0) {
            let msg: String = out.stderr.lines().filter(|l| !l.contains("serializing schedule") && !l.contains("test panicked")).take(3).collect::<Vec<_>>().join(" ");
            return Err(viol("cli-nonzero-exit", "", format!("exit status {:?}: {msg}", out.status)));
        }
        let bytes = result_bytes(&case.route, &out).map_err(|(c, e)| viol(c, "", e))?.to_vec();
        let printed = parse_printed(&bytes).map_err(|e| viol("cli-invalid-output", "", e))?;
        Ok((printed, out, w))
    }

    fn run_lib_equiv(&self, case: &CliCase, mut m: Metrics, mut h: Fnv) -> RunOut {
        let traces: Vec<Trace> = vec![];
        let mut long = case.clone();
        if case.extra["t0_long"].as_bool().unwrap_or(false) {
            // threshold just above the bound after 3000 iterations (1 thread, in-process)
            let mut probe = case.clone();
            probe.opts.t = Some(3000);
            probe.opts.r = None;
            probe.opts.p = Some(1);
            let w = case.write();
            match library_result(&probe, &w.bytes).ok().and_then(|o| o.result.ok()) {
                Some(s) if s.total_bound.is_finite() && s.total_bound > 0.0 => {
                    long.opts.r = Some(s.total_bound * 1.001);
                    m.add("probe_unlimited_budget_needs_thousands_of_iterations", 1);
                }
                _ => return finish(m, h, Verdict::Skip("t0-long-not-applicable"), traces),
            }
        }
        let case = &long;
        let (printed, out, w) = match self.spawn(case, &mut m, &mut h) {
            Ok(x) => x,
            Err(v) => return finish(m, h, v, traces),
        };
        let model = rename_model(&case.game, &w.names);
        let eff = effective_threads(&case.opts, &case.env);
        // the pool the program asked for (observed by the stand-in)
        if let Some(rep) = &out.report {
            let got: Vec<u64> = rep["pool_sizes"].as_array().map(|a| a.iter().filter_map(|x| x.as_u64()).collect()).unwrap_or_default();
            let want: Vec<u64> = if eff == 1 { vec![] } else { vec![eff as u64] };
            if got != want {
                return finish(m, h, viol("cli-wrong-thread-count", "", format!("-p {:?} (cores {:?}): thread pools requested {:?}, expected {:?}", case.opts.p, case.env.cores, got, want)), traces);
            }
            if case.opts.p.unwrap_or(0) == 0 {
                m.add("probe_parallel_zero_uses_core_count", 1);
            }
        } else {
            return finish(m, h, Verdict::Harness("simcli wrote no report".into()), traces);
        }
        if case.opts.t == Some(0) {
            m.add("probe_max_iters_zero_unlimited", 1);
        }
        let lib = match library_result(case, &w.bytes) {
            Ok(o) => o,
            Err(e) => return finish(m, h, viol("library-run-failed", "", e), traces),
        };
        let ls = match &lib.result {
            Ok(s) => s,
            Err(e) => return finish(m, h, viol("library-run-failed", "", format!("{e:?}")), traces),
        };
        let exact = eff == 1;
        let same = if exact {
            m.add("compared_exactly", 1);
            profiles_ulp_equal(&printed.profile, &ls.profile)
        } else {
            m.add("compared_with_tolerance", 1);
            profile_diff(&printed.profile, &ls.profile).map(|d| d <= PROB_TOL).unwrap_or(false)
        };
        if !same {
            if !exact {
                let game = model.build().expect("accepted");
                let mut c1 = SolveCfg::new(case.opts.method_or_default(), ParamSpec::Preset(case.opts.preset_or_default()), case.opts.t_or_default().max(1).min(100_000), case.opts.r.unwrap_or(0.0), 1, case.env.sampling_seed);
                c1.buggify = false;
                let base = observed_solve(&game, &c1);
                let ill = match &base.result {
                    Ok(b) => std::panic::catch_unwind(std::panic::AssertUnwindSafe(|| cond::ill_conditioned(&model, &game, &c1, b, PROB_TOL))).unwrap_or(Some("panicked")),
                    Err(_) => Some("one-thread-run-failed"),
                };
                if ill.is_some() {
                    m.add("ill_conditioned_skipped", 1);
                    return finish(m, h, Verdict::Skip("ill-conditioned"), traces);
                }
            }
            let d = profile_diff(&printed.profile, &ls.profile).map(|d| format!("{d:.3e}")).unwrap_or_else(|e| e);
            return finish(
                m,
                h,
                viol(
                    "cli-differs-from-library",
                    "",
                    format!(
                        "args [{}]: printed strategies differ from Game::solve({}, {}, {}, {}, {}) by {d}",
                        case.opts.args().join(" "),
                        case.opts.method_or_default().name(),
                        case.opts.t_or_default(),
                        case.opts.r.unwrap_or(0.0),
                        eff,
                        case.opts.preset_or_default()
                    ),
                ),
                traces,
            );
        }
        finish(m, h, Verdict::Pass, traces)
    }

    fn run_routes(&self, case: &CliCase, mut m: Metrics, mut h: Fnv) -> RunOut {
        let traces: Vec<Trace> = vec![];
        let (a, _, _) = match self.spawn(case, &mut m, &mut h) {
            Ok(x) => x,
            Err(v) => return finish(m, h, v, traces),
        };
        let mut other = case.clone();
        other.route = Route::from_json(&case.extra["other_route"]);
        let (b, _, _) = match self.spawn(&other, &mut m, &mut h) {
            Ok(x) => x,
            Err(v) => return finish(m, h, v, traces),
        };
        if a.route_equal(&b) {
            finish(m, h, Verdict::Pass, traces)
        } else {
            finish(m, h, viol("cli-route-dependent", "", format!("the same bytes gave different results through {} and {}", case.route.to_json(), other.route.to_json())), traces)
        }
    }

    fn run_encodings(&self, case: &CliCase, mut m: Metrics, mut h: Fnv) -> RunOut {
        let traces: Vec<Trace> = vec![];
        let mut j = case.clone();
        j.format = Format::Json;
        j.route.ext = "json".into();
        let mut g = case.clone();
        g.format = Format::Gambit;
        g.route.ext = "efg".into();
        let (pj, _, _) = match self.spawn(&j, &mut m, &mut h) {
            Ok(x) => x,
            Err(v) => return finish(m, h, v, traces),
        };
        let (pg, _, wg) = match self.spawn(&g, &mut m, &mut h) {
            Ok(x) => x,
            Err(v) => return finish(m, h, v, traces),
        };
        let pg_model = rename_profile(&pg.profile, &wg.names, false);
        let d = profile_diff(&pj.profile, &pg_model);
        let tol = 1e-9;
        let reg_ok = (0..2).all(|p| (pj.regrets[p] - pg.regrets[p]).abs() <= 1e-9 * case.game.stats().d().max(1.0) + 2.0 * wg.slack);
        if d.as_ref().map(|d| *d <= tol).unwrap_or(false) && reg_ok {
            return finish(m, h, Verdict::Pass, traces);
        }
        // the Gambit route subtracts the constant-sum offset: one-ulp payoff differences; judge only well-conditioned games
        let game = case.game.build().expect("accepted");
        let mut c1 = SolveCfg::new(Method::Full, ParamSpec::Preset(case.opts.preset_or_default()), case.opts.t_or_default(), 0.0, 1, 0);
        c1.buggify = false;
        let base = observed_solve(&game, &c1);
        let ill = match &base.result {
            Ok(b) => std::panic::catch_unwind(std::panic::AssertUnwindSafe(|| cond::ill_conditioned(&case.game, &game, &c1, b, 1e-8))).unwrap_or(Some("panicked")),
            Err(_) => Some("failed"),
        };
        if ill.is_some() {
            m.add("ill_conditioned_skipped", 1);
            return finish(m, h, Verdict::Skip("ill-conditioned"), traces);
        }
        finish(m, h, viol("cli-encoding-dependent", "", format!("JSON and Gambit encodings of one game give different solutions: strategies differ by {:?}, regrets {:?} vs {:?}", d, pj.regrets, pg.regrets)), traces)
    }

    fn run_clip(&self, case: &CliCase, mut m: Metrics, mut h: Fnv) -> RunOut {
        let traces: Vec<Trace> = vec![];
        let (printed, _, w) = match self.spawn(case, &mut m, &mut h) {
            Ok(x) => x,
            Err(v) => return finish(m, h, v, traces),
        };
        let model = rename_model(&case.game, &w.names);
        // what is printed is always a valid profile, and its numbers are its own
        if let Err((class, msg)) = faithful(&model, &printed, w.constant, w.slack) {
            return finish(m, h, viol(class, "", format!("{msg} | args: {}", case.opts.args().join(" "))), traces);
        }
        let hthr = case.opts.c.unwrap_or(0.0);
        let lib = match library_result(case, &w.bytes) {
            Ok(o) => o,
            Err(e) => return finish(m, h, viol("library-run-failed", "", e), traces),
        };
        let ls = match &lib.result {
            Ok(s) => s,
            Err(e) => return finish(m, h, viol("library-run-failed", "", format!("{e:?}")), traces),
        };
        let (pruned, all_survive) = own_truncation(&ls.profile, hthr);
        let r_un = eval::evaluate(&model, &ls.profile).total();
        let is_unpruned = profiles_ulp_equal(&printed.profile, &ls.profile);
        if all_survive {
            let r_pr = eval::evaluate(&model, &pruned).total();
            let scale = model.stats().d().max(1.0);
            if (r_pr - r_un).abs() <= 1e-12 * scale {
                m.add("clip_regret_tie_skipped", 1);
                return finish(m, h, Verdict::Skip("clip-regret-tie"), traces);
            }
            let want_pruned = r_pr < r_un;
            m.add(if want_pruned { "probe_pruned_profile_expected" } else { "probe_unpruned_profile_expected" }, 1);
            let expect = if want_pruned { &pruned } else { &ls.profile };
            let ok = profile_diff(&printed.profile, expect).map(|d| d <= 1e-12).unwrap_or(false);
            if !ok {
                return finish(
                    m,
                    h,
                    viol(
                        "cli-clip-wrong-choice",
                        if want_pruned { "pruned-expected" } else { "unpruned-expected" },
                        format!("--clip-threshold={hthr}: pruned regret {r_pr:e}, unpruned {r_un:e}: the {} profile must be printed; printed profile {}", if want_pruned { "pruned" } else { "unpruned" }, if is_unpruned { "is the unpruned one" } else { "differs" }),
                    ),
                    traces,
                );
            }
        } else {
            // some infoset has no action above the threshold: the property only fixes the
            // infosets with a survivor
            m.add("probe_infoset_without_survivor", 1);
            if !is_unpruned {
                for pl in 0..2 {
                    for (i, mp) in &ls.profile[pl] {
                        if mp.values().any(|q| *q > hthr) {
                            let a = &printed.profile[pl][i];
                            let b = &pruned[pl][i];
                            let same = a.len() == b.len() && a.iter().zip(b.iter()).all(|((x, q), (y, s))| x == y && (q - s).abs() <= 1e-12);
                            if !same {
                                return finish(m, h, viol("cli-clip-wrong-truncation", "", format!("--clip-threshold={hthr}: infoset {i:?} printed as {a:?}, truncation of the solution gives {b:?}")), traces);
                            }
                        }
                    }
                }
            }
        }
        let _ = check_profile;
        finish(m, h, Verdict::Pass, traces)
    }

    fn run_reader(&self, case: &CliCase, mut m: Metrics, mut h: Fnv) -> RunOut {
        let traces: Vec<Trace> = vec![];
        let w = case.write();
        let which = case.extra["reader"].as_str().unwrap_or("own").to_string();
        let seed: u64 = case.extra["read_seed"].as_str().and_then(|s| s.parse().ok()).unwrap_or(1);
        let fault = case.extra["fault"].as_str().unwrap_or("none").to_string();
        let len = w.bytes.len();
        let mut r = Rng::new(seed);
        let cut = if len > 4 { 1 + r.below(len as u64 - 3) as usize } else { 1 };
        let plan = ReadPlan {
            seed,
            p_eintr: if r.coin(0.7) { 0.2 } else { 0.0 },
            error_at: if fault == "read_error" { Some(cut) } else { None },
            eof_at: if fault == "early_eof" { Some(cut) } else { None },
            max_chunk: *r.pick(&[1usize, 7, 64, 4096]),
        };
        type Parsed = (LibGame, f64);
        let fmt = case.format;
        let parse = |rd: &mut dyn FnMut() -> Parsed| -> Result<Parsed, String> {
            std::panic::catch_unwind(std::panic::AssertUnwindSafe(|| rd())).map_err(|e| {
                e.downcast_ref::<String>().cloned().or_else(|| e.downcast_ref::<&str>().map(|s| s.to_string())).unwrap_or_default()
            })
        };
        let auto = which == "auto";
        let one_shot = parse(&mut || {
            let mut rd: &[u8] = &w.bytes;
            if auto {
                crate::real_main::verif::auto_from_reader(&mut rd)
            } else if fmt == Format::Json {
                crate::real_main::verif::json_from_reader(&mut rd)
            } else {
                crate::real_main::verif::gambit_from_reader(&mut rd)
            }
        });
        let mut faulty = FaultyRead::new(&w.bytes, plan.clone());
        let chunked = parse(&mut || {
            if auto {
                crate::real_main::verif::auto_from_reader(&mut faulty)
            } else if fmt == Format::Json {
                crate::real_main::verif::json_from_reader(&mut faulty)
            } else {
                crate::real_main::verif::gambit_from_reader(&mut faulty)
            }
        });
        let st = faulty.stats.clone();
        m.add("fault_read_short_chunks", st.chunks);
        m.add("fault_read_one_byte_chunks", st.one_byte_chunks);
        m.add("fault_read_eintr", st.eintr);
        m.add("fault_read_error", st.hard_errors);
        m.add("fault_read_early_eof", st.early_eof);
        m.add("probe_utf8_sequence_split_across_chunks", st.utf8_splits);
        h.u64(st.chunks);
        h.u64(st.eintr);
        m.nontrivial_key = Some(case.config_hash());
        let (g0, s0) = match one_shot {
            Ok(x) => x,
            Err(e) => return finish(m, h, viol("cli-nonzero-exit", "reader", format!("valid {} input rejected by the {} reader: {e}", fmt.name(), which)), traces),
        };
        let solve3 = |g: &LibGame| -> Result<Profile, String> {
            let (s, _) = g.solve(SolveMethod::Full, 3, 0.0, 1, Some(RegretParams::vanilla())).map_err(|e| format!("{e:?}"))?;
            named(&s)
        };
        match (fault.as_str(), chunked) {
            ("none", Ok((g1, s1))) => {
                let (p0, p1) = (solve3(&g0), solve3(&g1));
                let same = match (&p0, &p1) {
                    (Ok(a), Ok(b)) => a == b && s0.to_bits() == s1.to_bits(),
                    _ => false,
                };
                if !same {
                    return finish(m, h, viol("cli-read-chunking-changes-game", "", format!("the {} reader parsed a different game from the same bytes delivered in {} chunks with {} EINTR", which, st.chunks, st.eintr)), traces);
                }
                h.str("same");
                finish(m, h, Verdict::Pass, traces)
            }
            ("none", Err(e)) => finish(m, h, viol("cli-read-chunking-rejected", "", format!("the {} reader rejected valid input delivered in {} chunks with {} EINTR: {e}", which, st.chunks, st.eintr)), traces),
            (_, Ok(_)) => finish(m, h, viol("cli-accepted-invalid", fault.clone(), format!("the {} reader returned a game although the stream failed ({fault}) after {cut} of {len} bytes", which)), traces),
            (_, Err(_)) => {
                h.str("rejected");
                finish(m, h, Verdict::Pass, traces)
            }
        }
    }
}

impl Printed {
    pub fn route_equal(&self, o: &Printed) -> bool {
        self.regret.to_bits() == o.regret.to_bits()
            && (0..2).all(|p| self.util[p].to_bits() == o.util[p].to_bits() && self.regrets[p].to_bits() == o.regrets[p].to_bits())
            && self.profile == o.profile
    }
}

impl Prop for CliOptions {
    type Case = CliCase;

    fn id(&self) -> &'static str {
        "C16"
    }

    fn runs(&self, tier: Tier) -> u64 {
        match tier {
            Tier::Quick => 40_000,
            Tier::Thorough => 800_000,
        }
    }

    fn gen(&self, r: &mut Rng, _tier: Tier, idx: u64) -> CliCase {
        let (game, shape) = gen::cli_game(r, 1, 100);
        let format = if r.coin(0.5) { Format::Json } else { Format::Gambit };
        let mut opts = random_opts(r, true);
        let mut env = SimEnv::random(r);
        let mut route = Route::random(r, format);
        let kind = match idx % 10 {
            0..=3 => "lib-equiv",
            4 => "routes",
            5..=6 => "reader",
            7 => "encodings",
            _ => "clip",
        };
        let mut extra = json!({"kind": kind});
        let d = game.stats().d();
        let n = game.stats().n() as f64;
        match kind {
            "lib-equiv" => {
                if opts.p == Some(0) || opts.p.is_none() {
                    env.cores = *r.pick(&[Cores::Unknown, Cores::Count(1), Cores::Count(2), Cores::Count(3)]);
                }
                if r.coin(0.15) {
                    // unlimited budget (-t 0) with a threshold that the CFR theorem guarantees within
                    // 400 iterations of the unsampled vanilla solver (each per-player bound is at
                    // most 2*D*N*sqrt(A)/sqrt(T)), but that is usually NOT met by the first few; a
                    // run that does not stop is cut off by the simulator's step budget
                    opts.t = Some(0);
                    opts.method = Some(Method::Full);
                    opts.discount = Some("vanilla".into());
                    let a = game.stats().a() as f64;
                    opts.r = Some(((d * n.max(1.0) * a.sqrt() / 10.0) * 1000.0).ceil() / 1000.0 + 0.001);
                    let k = opts.p.unwrap_or(0).max(4) as u64;
                    env.step_budget = crate::solve::step_budget(game.stats().nodes, 401, k as usize);
                } else if game.stats().nodes <= 40 && r.coin(0.06) {
                    // "0 = unlimited" can only be told from a large finite cap by a run that needs
                    // more iterations than the cap: the threshold is set (in run) just above the
                    // bound the library reaches after 3000 iterations
                    opts.t = Some(0);
                    opts.method = Some(Method::Full);
                    opts.discount = Some("vanilla".into());
                    opts.p = Some(*r.pick(&[1usize, 1, 2]));
                    opts.r = Some(1.0);
                    opts.c = None;
                    extra["t0_long"] = json!(true);
                    env.step_budget = crate::solve::step_budget(game.stats().nodes, 3001, 2);
                } else if let Some(x) = opts.r {
                    opts.r = Some(((x * d) * 1000.0).round() / 1000.0);
                }
                if opts.t.is_none() && game.stats().nodes > 60 {
                    opts.t = Some(20);
                }
            }
            "routes" => {
                opts.p = Some(1);
                let other = Route::random(r, format);
                extra["other_route"] = other.to_json();
            }
            "reader" => {
                extra["reader"] = json!(if r.coin(0.4) { "auto" } else { "own" });
                extra["read_seed"] = json!(r.next().to_string());
                extra["fault"] = json!(*r.pick(&["none", "none", "none", "read_error", "early_eof"]));
            }
            "encodings" => {
                opts.method = Some(Method::Full);
                opts.p = Some(1);
                opts.r = None;
                opts.c = None;
                route = Route { stdin: false, ext: String::new(), flag: None, out_file: false, stale_out: false, in_place: false, dev_stdin: false };
            }
            _ => {
                opts.method = Some(Method::Full);
                opts.p = Some(1);
                // the clip decision does not depend on -r: sometimes a threshold that is met early
                opts.r = if r.coin(0.3) { Some(((d * *r.pick(&[0.05, 0.3, 1.0, 10.0])) * 1000.0).round() / 1000.0 + 0.001) } else { None };
                opts.c = Some(*r.pick(&[0.0, 1e-3, 0.05, 0.1, 0.3, 0.45, 0.6, 1.0, 0.125, 0.25, 0.5, 0.75]));
                if opts.t.is_none() {
                    opts.t = Some(*r.pick(&[1u64, 2, 3, 5, 10, 30]));
                }
            }
        }
        CliCase { game, shape: shape.to_string(), format, style_seed: r.next(), fancy: true, route, opts, env, extra }
    }

    fn run(&self, case: &CliCase) -> RunOut {
        let mut m = Metrics::default();
        m.game_hash = case.game.hash();
        m.nontrivial_key = Some(case.config_hash());
        let h = Fnv::default();
        match case.extra["kind"].as_str().unwrap_or("lib-equiv") {
            "routes" => {
                m.add("runs_routes", 1);
                self.run_routes(case, m, h)
            }
            "reader" => {
                m.add("runs_reader_faults", 1);
                self.run_reader(case, m, h)
            }
            "encodings" => {
                m.add("runs_encodings", 1);
                self.run_encodings(case, m, h)
            }
            "clip" => {
                m.add("runs_clip", 1);
                self.run_clip(case, m, h)
            }
            _ => {
                m.add("runs_library_equivalence", 1);
                self.run_lib_equiv(case, m, h)
            }
        }
    }

    cli_case_boilerplate!();

    fn shrink(&self, c: &CliCase) -> Vec<CliCase> {
        let kind = c.extra["kind"].as_str().unwrap_or("").to_string();
        let mut v = shrink_cli_case(c);
        v.retain(|n| match kind.as_str() {
            // keep what the sub-check is about
            "clip" => n.opts.c == c.opts.c && n.format == c.format,
            "routes" => n.route == c.route && n.format == c.format,
            "encodings" => n.format == c.format && n.route == c.route,
            "reader" => n.format == c.format && n.fancy == c.fancy,
            _ => true,
        });
        v
    }

    fn schedule_dependent(&self) -> bool {
        false
    }

    fn rule(&self) -> String {
        "five kinds of run on generated valid games written by the harness's own writers. lib-equiv (4/10): one `simcli` process (real main() in one simulated execution) vs Game::solve run in-process for the option values as documented, same sampling seed (-m, -d, -t incl. 0 = unlimited, -r, -p incl. 0 = core count; the stand-in reports the pool size the program asked for). routes (1/10): the same bytes through two routes (file / stdin, extension, --input-format, -o) must give the identical object. reader (2/10): the binary's readers called in-process on a fault-injecting Read (seeded chunk sizes down to 1 byte, EINTR between chunks, multi-byte UTF-8 split, hard error, early EOF). encodings (1/10): JSON and Gambit encoding of one game give one solution. clip (2/10): printed profile = the harness's own truncation of the library result iff its independently evaluated regret is strictly lower; always a valid profile. Every run is non-trivial; distinct = distinct case hashes".into()
    }

    fn assumptions(&self) -> Vec<String> {
        vec![
            "numbers parsed back from the printed JSON are compared up to one unit in the last place (serde_json's parser)".into(),
            "for -p > 1 and for Gambit files the comparison with the library uses the C06 tolerance and conditioning guard".into(),
            "where no action of an infoset exceeds the clip threshold the property fixes no particular distribution; only validity is required there".into(),
        ]
    }

    fn extra_evidence(&self, _agg: &Aggregate) -> Value {
        json!({"fault_kinds": ["read_short", "read_one_byte", "read_eintr", "read_error", "read_early_eof", "utf8_split"]})
    }
}
