//! C06 (Full) and C07 (Sampled, External with pinned draws): the K-thread result equals the
//! 1-thread result on every schedule; C07 adds the draw-once / visit-once monitors.
use crate::common::*;
use crate::cond;
use crate::driver::Prop;
use crate::gen;
use crate::model::profile_diff;
use crate::rng::{Fnv, Rng};
use crate::sched::{simulate, SchedSpec, Trace};
use crate::shrink::shrink_lib_case;
use crate::solve::{observed_solve, step_budget, SolveCfg, SolveOut};
use cfr_verif_seam as seam;
use serde_json::{json, Value};
use std::collections::BTreeMap;
use std::sync::Arc;

pub struct Threads {
    pub sampled: bool,
}

pub const PROB_TOL: f64 = 1e-7;

pub fn bound_tol(d: f64, n: usize) -> f64 {
    1e-9 * d.max(1e-300) * (n as f64 + 1.0)
}

pub fn random_params(r: &mut Rng) -> ParamSpec {
    match r.below(10) {
        0 => ParamSpec::Default,
        1..=6 => ParamSpec::Preset(PRESETS[r.below(5) as usize]),
        7..=8 => {
            let vals = [f64::INFINITY, f64::NEG_INFINITY, 0.0, 0.5, -0.5, 1.5, -1.5, 2.0, 1e3, -1e3];
            let a = *r.pick(&vals);
            let b = *r.pick(&vals);
            let g = *r.pick(&[0.0, 0.5, 1.0, 2.0, 3.0, 1e3]);
            let w = *r.pick(&[f64::INFINITY, f64::NEG_INFINITY, 0.0, 1.0, 0.5, -0.5]);
            ParamSpec::Custom([a, b, g, w])
        }
        _ => {
            // anything the constructor accepts: exponents of any moderate size (log-uniform up to
            // 1e3, either sign), so that powers of t sweep through the whole float range —
            // including the sub-normal band just above underflow and the band just below overflow
            let e = |r: &mut Rng, signed: bool| -> f64 {
                let m = 10f64.powf(r.f() * 4.0 - 1.0); // 0.1 .. 1000
                if signed && r.coin(0.5) {
                    -m
                } else {
                    m
                }
            };
            let a = e(r, true);
            let b = e(r, true);
            let g = e(r, false);
            let w = if r.coin(0.5) { e(r, true) } else { *r.pick(&[f64::INFINITY, f64::NEG_INFINITY, 0.0]) };
            ParamSpec::Custom([a, b, g, w])
        }
    }
}

/// normalise visit multiset: (class, player, infoset, address) -> count, where both vanilla
/// traversals map to one class
pub fn visit_multiset(ctx: &seam::Ctx) -> BTreeMap<(u8, u8, usize, usize), u32> {
    let mut m = BTreeMap::new();
    for ((kind, p, i, addr), c) in &ctx.visit_counts {
        let class = match *kind {
            seam::VISIT_SINGLE | seam::VISIT_MULTI => 1,
            k => k,
        };
        *m.entry((class, *p, *i, *addr)).or_insert(0) += *c;
    }
    m
}

pub fn rayon_metrics(m: &mut Metrics, s: &verif_rayon_shim::control::Stats) {
    m.add("stub_par_calls", s.par_calls);
    m.add("stub_workers_spawned", s.workers_spawned);
    m.add("fault_oversubscribed_fewer_items_than_workers", s.calls_with_fewer_items_than_workers);
    m.add("stub_buggify_single_worker", s.coin_single_worker);
    m.add("stub_buggify_all_workers", s.coin_all_workers);
    m.add("stub_buggify_reverse_order", s.coin_reverse);
    m.add("stub_buggify_identity_order", s.coin_identity);
    m.add("stub_buggify_shuffled_order", s.coin_shuffle);
    m.add("stub_buggify_extra_yields", s.coin_yield);
}

impl Prop for Threads {
    type Case = LibCase;

    fn id(&self) -> &'static str {
        if self.sampled {
            "C07"
        } else {
            "C06"
        }
    }

    fn runs(&self, tier: Tier) -> u64 {
        match tier {
            Tier::Quick => if self.sampled { 200_000 } else { 300_000 },
            Tier::Thorough => if self.sampled { 4_000_000 } else { 6_000_000 },
        }
    }

    fn gen(&self, r: &mut Rng, tier: Tier, _idx: u64) -> LibCase {
        let shapes = ["lopsided", "lopsided", "bushy", "simultaneous", "poker", "tiny", "chain", "degenerate", "mixed"];
        let (game, shape) = gen::game(r, &shapes, 1);
        let method = if self.sampled {
            if r.coin(0.6) {
                Method::External
            } else {
                Method::Sampled
            }
        } else {
            Method::Full
        };
        let ts: &[u64] = match tier {
            Tier::Quick => &[1, 2, 2, 3, 3, 4, 5, 8, 13],
            Tier::Thorough => &[1, 2, 2, 3, 3, 4, 5, 8, 13, 21, 34],
        };
        let t = *r.pick(ts);
        let k = match r.below(10) {
            0..=3 => 2,
            4..=5 => 3,
            6 => 4,
            _ => r.usize_in(5, 16),
        };
        let params = random_params(r);
        let thresh = if r.coin(0.85) { 0.0 } else { game.stats().d() * *r.pick(&[0.01, 0.1, 0.5, 2.0]) };
        LibCase {
            game,
            shape: shape.to_string(),
            method,
            params,
            t,
            thresh,
            k,
            cores: seam::Cores::Real,
            sampling_seed: r.next(),
            fail_build: false,
            buggify: r.coin(0.8),
            sched: SchedSpec::swarm(r),
            extra: Value::Null,
        }
    }

    fn run(&self, case: &LibCase) -> RunOut {
        let mut m = Metrics::default();
        m.game_hash = case.game.hash();
        let st = case.game.stats();
        let model = Arc::new(case.game.clone());
        let mut cfg1 = SolveCfg::new(case.method, case.params.clone(), case.t, case.thresh, 1, case.sampling_seed);
        cfg1.record_visits = self.sampled;
        cfg1.record_draws = self.sampled;
        cfg1.step_budget = step_budget(st.nodes, case.t, 1);
        let mut cfgk = cfg1.clone();
        cfgk.k = case.k;
        cfgk.buggify = case.buggify;
        cfgk.step_budget = step_budget(st.nodes, case.t, case.k);
        let (c1, ck, md) = (cfg1.clone(), cfgk.clone(), model.clone());
        let sim = simulate(&case.sched, move || -> Result<(SolveOut, SolveOut), String> {
            let game = md.build().map_err(|e| format!("{e:?}"))?;
            let a = observed_solve(&game, &c1);
            let b = observed_solve(&game, &ck);
            Ok((a, b))
        });
        m.add("executions", 1);
        m.add("sched_steps", sim.sched.steps);
        m.add("sched_preemptions", sim.sched.preemptions);
        m.interleavings.push(sim.sched.trace.hash());
        let mut h = Fnv::default();
        h.u64(sim.sched.trace.hash());
        let traces = vec![sim.sched.trace.clone()];
        let finish = |mut m: Metrics, mut h: Fnv, v: Verdict, traces: Vec<Trace>| {
            if let Verdict::Violation(x) = &v {
                h.str(&x.class);
            }
            m.log_hash = h.finish();
            RunOut { verdict: v, metrics: m, traces }
        };
        let (a, b) = match sim.value {
            Err(f) => {
                return finish(m, h, viol(f.class(), "", f.message().lines().next().unwrap_or("").to_string()), traces);
            }
            Ok(Err(_)) => return finish(m, h, Verdict::Skip("game-rejected"), traces),
            Ok(Ok(x)) => x,
        };
        a.hash_into(&mut h);
        b.hash_into(&mut h);
        rayon_metrics(&mut m, &b.rayon);
        if b.rayon.max_workers >= 2 && sim.sched.preemptions >= 1 {
            m.nontrivial_key = Some(crate::rng::mix(case.config_hash(), sim.sched.trace.hash()));
            m.add("probe_two_or_more_workers_interleaved", 1);
        }
        if case.k * 3 > st.nodes {
            m.add("probe_task_target_exceeds_tree", 1);
        }
        let (sa, sb) = match (&a.result, &b.result) {
            (Ok(x), Ok(y)) => (x, y),
            (x, y) => {
                let same = match (x, y) {
                    (Err(e1), Err(e2)) => e1 == e2,
                    _ => false,
                };
                return if same {
                    finish(m, h, Verdict::Pass, traces)
                } else {
                    finish(
                        m,
                        h,
                        viol("diverges-from-1-thread", "result-kind", format!("1 thread: {:?}; {} threads: {:?}", x.as_ref().err(), case.k, y.as_ref().err())),
                        traces,
                    )
                };
            }
        };
        // monitors (C07)
        if self.sampled {
            for (ctx, label) in [(&a.seam, "1 thread"), (&b.seam, "K threads")] {
                if let Some(((kind, vid, pass), n)) = ctx.draw_counts.iter().find(|(_, n)| **n > 1) {
                    return finish(
                        m,
                        h,
                        viol("draw-twice", "", format!("{label}: {n} draws at kind={kind} infoset={vid} pass={pass}")),
                        traces,
                    );
                }
                if ctx.chance_inconsistent > 0 {
                    return finish(m, h, viol("chance-visit-inconsistent", "", format!("{label}: a chance infoset returned two different outcomes in one pass")), traces);
                }
            }
            m.add("draws_observed", (a.seam.draw_counts.len() + b.seam.draw_counts.len()) as u64);
            m.add("probe_chance_cache_hits", b.seam.stats.chance_cache_hits);
            m.add("probe_player_cache_hits", b.seam.stats.player_cache_hits);
        }
        let dprob = match profile_diff(&sa.profile, &sb.profile) {
            Ok(d) => d,
            Err(e) => return finish(m, h, viol("diverges-from-1-thread", "infosets", e), traces),
        };
        let btol = bound_tol(st.d(), st.n());
        let mut dbound = 0.0f64;
        let mut bound_kind_differs = false;
        for p in 0..2 {
            let (x, y) = (sa.bounds[p], sb.bounds[p]);
            if x.is_finite() && y.is_finite() {
                dbound = dbound.max((x - y).abs());
            } else if x.to_bits() != y.to_bits() && !(x.is_nan() && y.is_nan()) {
                bound_kind_differs = true;
            }
        }
        let visits_differ = self.sampled && case.thresh <= 0.0 && visit_multiset(&a.seam) != visit_multiset(&b.seam);
        let differs = dprob > PROB_TOL || dbound > btol || bound_kind_differs || visits_differ;
        if !differs {
            m.max("max_strategy_deviation_k_vs_1", dprob);
            m.max("max_bound_deviation_k_vs_1_rel_to_tol", dbound / btol);
            return finish(m, h, Verdict::Pass, traces);
        }
        // a difference: judge it only if the configuration is well conditioned
        let game = case.game.build().expect("accepted before");
        let ill = std::panic::catch_unwind(std::panic::AssertUnwindSafe(|| cond::ill_conditioned(&case.game, &game, &cfg1, sa, PROB_TOL)))
            .unwrap_or(Some("conditioning-run-panicked"));
        if let Some(why) = ill {
            m.add("ill_conditioned_skipped", 1);
            let _ = why;
            return finish(m, h, Verdict::Skip("ill-conditioned"), traces);
        }
        let msg = if visits_differ && dprob <= PROB_TOL {
            let (va, vb) = (visit_multiset(&a.seam), visit_multiset(&b.seam));
            let ta: u64 = va.values().map(|c| *c as u64).sum();
            let tb: u64 = vb.values().map(|c| *c as u64).sum();
            format!("decision-node visits differ: 1 thread {ta}, {} threads {tb}", case.k)
        } else {
            format!(
                "{} T={} K={}: max strategy difference {:.3e}, bound difference {:.3e} (tolerances {:.0e} / {:.3e})",
                case.method.name(),
                case.t,
                case.k,
                dprob,
                dbound,
                PROB_TOL,
                btol
            )
        };
        let class = if visits_differ && dprob <= PROB_TOL && dbound <= btol { "visit-multiset-differs" } else { "diverges-from-1-thread" };
        finish(m, h, viol(class, "", msg), traces)
    }

    fn case_to_json(&self, c: &LibCase) -> Value {
        c.to_json()
    }
    fn case_from_json(&self, v: &Value) -> Result<LibCase, String> {
        LibCase::from_json(v)
    }
    fn summary(&self, c: &LibCase) -> Value {
        c.summary()
    }
    fn with_replay(&self, c: &LibCase, traces: &[Trace]) -> LibCase {
        let mut n = c.clone();
        if let Some(t) = traces.first() {
            n.sched = SchedSpec::replay(t.clone());
        }
        n
    }
    fn with_sched_seed(&self, c: &LibCase, seed: Option<u64>) -> LibCase {
        let mut n = c.clone();
        n.sched = match seed {
            None => SchedSpec::nopreempt(),
            Some(s) => SchedSpec::random(s),
        };
        n
    }
    fn shrink(&self, c: &LibCase) -> Vec<LibCase> {
        shrink_lib_case(c)
    }

    fn rule(&self) -> String {
        format!(
            "one run = one seeded case (generated game x {} x parameter set x T x threshold x K in 2..16 x {}scheduler policy x stub coins) executed as ONE simulated execution that solves with 1 thread and with K simulated threads and compares them; a run is non-trivial when the K-thread solve had >= 2 simulated workers in some parallel call AND the scheduler preempted a runnable task at least once; distinct = distinct (case configuration, scheduler-decision sequence) hashes",
            if self.sampled { "{Sampled, External} x sampling seed" } else { "Full" },
            ""
        )
    }

    fn assumptions(&self) -> Vec<String> {
        vec![
            "the rayon stand-in over-approximates what real rayon may do with a parallel iterator (any item-to-worker assignment, any order, any reduction grouping); DESIGN 2.2, 8.3".into(),
            "shuttle explores sequentially consistent interleavings; Relaxed atomics are treated as SeqCst (accumulators are only read after the join)".into(),
            "numeric differences are judged only on well-conditioned configurations (reference-model guard + 1e-11 perturbation sensitivity of the 1-thread library); DESIGN 5.3".into(),
            "sampling decisions are pinned by a keyed RNG behind hooks H3/H4 (pure function of seed, infoset, pass)".into(),
        ]
    }

    fn extra_evidence(&self, agg: &crate::driver::Aggregate) -> Value {
        json!({
            "tolerances": {"probability_abs": PROB_TOL, "bound": "1e-9 * D * (N+1)"},
            "ill_conditioned_skipped": agg.skips.get("ill-conditioned").copied().unwrap_or(0),
        })
    }
}
