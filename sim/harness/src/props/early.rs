//! C09: a solve with threshold r and budget N returns exactly what the same solve with no
//! threshold returns with budget t*, the first iteration after which the total bound is < r.
use crate::common::*;
use crate::driver::{Aggregate, Prop};
use crate::gen;
use crate::lib_case_boilerplate;
use crate::model::profile_diff;
use crate::props::threads::{bound_tol, random_params, rayon_metrics, PROB_TOL};
use crate::rng::{Fnv, Rng};
use crate::sched::{simulate, SchedSpec};
use crate::shrink::shrink_lib_case;
use crate::solve::{observed_solve, step_budget, SolveCfg, SolveOut, Solved};
use cfr_verif_seam::Cores;
use serde_json::{json, Value};
use std::sync::Arc;

pub struct EarlyStop;

fn bits_equal(a: &Solved, b: &Solved) -> bool {
    if a.bounds[0].to_bits() != b.bounds[0].to_bits() || a.bounds[1].to_bits() != b.bounds[1].to_bits() {
        return false;
    }
    for p in 0..2 {
        if a.profile[p].len() != b.profile[p].len() {
            return false;
        }
        for ((ia, ma), (ib, mb)) in a.profile[p].iter().zip(b.profile[p].iter()) {
            if ia != ib || ma.len() != mb.len() {
                return false;
            }
            for ((xa, qa), (xb, qb)) in ma.iter().zip(mb.iter()) {
                if xa != xb || qa.to_bits() != qb.to_bits() {
                    return false;
                }
            }
        }
    }
    true
}

impl Prop for EarlyStop {
    type Case = LibCase;

    fn id(&self) -> &'static str {
        "C09"
    }

    fn runs(&self, tier: Tier) -> u64 {
        match tier {
            Tier::Quick => 40_000,
            Tier::Thorough => 800_000,
        }
    }

    fn gen(&self, r: &mut Rng, tier: Tier, _idx: u64) -> LibCase {
        let shapes = ["mixed", "tiny", "tiny", "degenerate", "poker", "simultaneous", "chain", "lopsided"];
        let (game, shape) = gen::game_with(r, &shapes, 1, |s| s.max_nodes = s.max_nodes.min(100));
        let nmax = match tier {
            Tier::Quick => 24,
            Tier::Thorough => 40,
        };
        LibCase {
            game,
            shape: shape.to_string(),
            method: *r.pick(&Method::ALL),
            params: random_params(r),
            t: r.usize_in(1, nmax) as u64,
            thresh: 0.0,
            // K = 1: bit-exact; K > 1: tolerances, thresholds kept away from the bounds
            k: *r.pick(&[1usize, 1, 1, 1, 2, 3, 4]),
            cores: Cores::Real,
            sampling_seed: r.next(),
            fail_build: false,
            buggify: r.coin(0.8),
            sched: SchedSpec::swarm(r),
            // which thresholds to try is derived from this seed inside run()
            extra: json!({"threshold_seed": r.next().to_string()}),
        }
    }

    fn run(&self, case: &LibCase) -> RunOut {
        let mut m = Metrics::default();
        m.game_hash = case.game.hash();
        let st = case.game.stats();
        let mut h = Fnv::default();
        let n = case.t;
        let k = case.k;
        let tseed: u64 = case.extra["threshold_seed"].as_str().and_then(|s| s.parse().ok()).unwrap_or(1);
        let model = Arc::new(case.game.clone());
        let base = {
            let mut c = SolveCfg::new(case.method, case.params.clone(), n, 0.0, k, case.sampling_seed);
            c.buggify = case.buggify;
            c.step_budget = step_budget(st.nodes, n, k);
            c
        };
        let b2 = base.clone();
        let exact = k == 1;
        // everything happens inside ONE simulated execution: prefix runs 0..=N, then the
        // thresholded runs
        type Out = (Vec<SolveOut>, Vec<(f64, &'static str, u64, SolveOut)>);
        let sim = simulate(&case.sched, move || -> Result<Out, String> {
            let game = model.build().map_err(|e| format!("{e:?}"))?;
            let mut prefixes = vec![];
            for t in 0..=n {
                let mut c = b2.clone();
                c.t = t;
                prefixes.push(observed_solve(&game, &c));
            }
            // history of total bounds
            let hist: Vec<f64> = prefixes.iter().map(|o| o.result.as_ref().map(|s| s.total_bound).unwrap_or(f64::NAN)).collect();
            let mut r = Rng::new(tseed);
            let mut thresholds: Vec<(f64, &'static str)> = vec![(-1.0, "negative"), (0.0, "zero"), (f64::NAN, "nan"), (f64::INFINITY, "inf")];
            let eps = if exact { 1e-12 } else { 1e-6 };
            let mut cands = vec![];
            for t in 1..=n as usize {
                let b = hist[t];
                if b.is_finite() && b > 0.0 {
                    cands.push((b * (1.0 - eps), "just-below-a-bound"));
                    cands.push((b * (1.0 + eps), "just-above-a-bound"));
                    if exact {
                        cands.push((b, "at-a-bound"));
                    }
                }
            }
            // all special ones plus up to 8 placed around bounds of the history
            for _ in 0..8.min(cands.len()) {
                let i = r.below(cands.len() as u64) as usize;
                thresholds.push(cands.swap_remove(i));
            }
            let mut runs = vec![];
            for (thr, label) in thresholds {
                let mut c = b2.clone();
                c.thresh = thr;
                runs.push((thr, label, n, observed_solve(&game, &c)));
                // the same threshold under an unlimited (u64::MAX) and a huge budget, where the
                // history shows that the threshold is reached within the first n iterations
                if (1..=n as usize).any(|t| hist[t] < thr) {
                    for big in [u64::MAX, n + 1_000_000_007] {
                        let mut c = b2.clone();
                        c.thresh = thr;
                        c.t = big;
                        runs.push((thr, label, big, observed_solve(&game, &c)));
                    }
                }
            }
            Ok((prefixes, runs))
        });
        m.add("executions", 1);
        m.add("sched_steps", sim.sched.steps);
        m.add("sched_preemptions", sim.sched.preemptions);
        m.interleavings.push(sim.sched.trace.hash());
        h.u64(sim.sched.trace.hash());
        let traces = vec![sim.sched.trace.clone()];
        let (prefixes, runs) = match sim.value {
            Err(f) => return finish(m, h, viol(f.class(), "", f.message().lines().next().unwrap_or("").to_string()), traces),
            Ok(Err(_)) => return finish(m, h, Verdict::Skip("game-rejected"), traces),
            Ok(Ok(x)) => x,
        };
        for o in &prefixes {
            o.hash_into(&mut h);
        }
        let mut pre: Vec<&Solved> = vec![];
        for o in &prefixes {
            match &o.result {
                Ok(s) => pre.push(s),
                Err(e) => return finish(m, h, viol("solve-error", "", format!("{e:?}")), traces),
            }
        }
        if k > 1 {
            rayon_metrics(&mut m, &prefixes[n as usize].rayon);
        }
        // the budget is never exceeded: with budget 0 no iteration runs, so both bounds are still
        // infinite (a finite bound is the trace of an iteration)
        if pre[0].bounds.iter().any(|b| !(b.is_infinite() && *b > 0.0)) {
            return finish(m, h, viol("budget-exceeded", "zero-budget", format!("{} K={k}: a solve with budget 0 returned bounds {:?}: an iteration ran", case.method.name(), pre[0].bounds)), traces);
        }
        m.nontrivial_key = Some(case.config_hash() ^ traces[0].hash());
        let btol = bound_tol(st.d(), st.n());
        for (thr, label, budget, o) in &runs {
            o.hash_into(&mut h);
            if *budget == u64::MAX {
                m.add("probe_unlimited_budget_with_reachable_threshold", 1);
            }
            let s = match &o.result {
                Ok(s) => s,
                Err(e) => return finish(m, h, viol("solve-error", "", format!("{e:?}")), traces),
            };
            // t* from the prefix history
            let mut tstar = n as usize;
            for t in 1..=n as usize {
                if pre[t].total_bound < *thr {
                    tstar = t;
                    break;
                }
            }
            m.add("thresholded_runs", 1);
            if tstar < n as usize {
                m.add("probe_early_stop_taken", 1);
            }
            match *label {
                "at-a-bound" => m.add("probe_threshold_exactly_at_a_bound", 1),
                "nan" => m.add("probe_nan_threshold", 1),
                "negative" => m.add("probe_negative_threshold", 1),
                _ => {}
            }
            let want = pre[tstar];
            let ok = if exact {
                bits_equal(s, want)
            } else {
                let d = profile_diff(&s.profile, &want.profile).unwrap_or(f64::INFINITY);
                let db = (0..2).map(|p| if s.bounds[p].is_finite() && want.bounds[p].is_finite() { (s.bounds[p] - want.bounds[p]).abs() } else if s.bounds[p].to_bits() == want.bounds[p].to_bits() { 0.0 } else { f64::INFINITY }).fold(0.0, f64::max);
                d <= PROB_TOL && db <= btol
            };
            if !ok {
                // which prefix does it equal, if any?
                let found = (0..=n as usize).find(|t| if exact { bits_equal(s, pre[*t]) } else { profile_diff(&s.profile, &pre[*t].profile).map(|d| d <= PROB_TOL).unwrap_or(false) && (s.total_bound - pre[*t].total_bound).abs() <= btol });
                if !exact {
                    // K > 1: a difference is judged only if the configuration is well conditioned
                    let game = case.game.build().expect("accepted before");
                    let mut c1 = base.clone();
                    c1.k = 1;
                    c1.thresh = *thr;
                    let b1 = observed_solve(&game, &c1);
                    let ill = match &b1.result {
                        Ok(bs) => std::panic::catch_unwind(std::panic::AssertUnwindSafe(|| crate::cond::ill_conditioned(&case.game, &game, &c1, bs, PROB_TOL))).unwrap_or(Some("panicked")),
                        Err(_) => Some("one-thread-run-failed"),
                    };
                    if ill.is_some() {
                        m.add("ill_conditioned_skipped", 1);
                        return finish(m, h, Verdict::Skip("ill-conditioned"), traces);
                    }
                }
                return finish(
                    m,
                    h,
                    viol(
                        "early-stop-mismatch",
                        *label,
                        format!(
                            "{} {} N={budget} K={k} r={thr:e} ({label}): result should equal the unthresholded run with budget t*={tstar} (bound history {:?}); it equals the prefix with budget {:?}; returned bound {:e}",
                            case.method.name(),
                            case.params.name(),
                            pre.iter().map(|s| s.total_bound).collect::<Vec<_>>(),
                            found,
                            s.total_bound
                        ),
                    ),
                    traces,
                );
            }
            if (tstar < n as usize || *budget > n) && !(s.total_bound < *thr) {
                return finish(m, h, viol("early-stop-bound-not-below-threshold", *label, format!("stopped after {tstar} < {n} iterations but bound {} is not < r={thr}", s.total_bound)), traces);
            }
        }
        // consecutive prefixes of a generic game differ, so equality with prefix t* also shows the budget was respected
        if exact && n >= 2 && bits_equal(pre[n as usize], pre[n as usize - 1]) {
            m.add("prefixes_identical_cannot_discriminate", 1);
        }
        finish(m, h, Verdict::Pass, traces)
    }

    lib_case_boilerplate!();

    fn shrink(&self, c: &LibCase) -> Vec<LibCase> {
        let mut v = shrink_lib_case(c);
        v.retain(|n| n.thresh == 0.0 && n.t >= 1);
        if c.k == 2 {
            let mut n = c.clone();
            n.k = 1;
            v.insert(0, n);
        }
        v
    }

    fn rule(&self) -> String {
        "one run = one seeded case (generated game x method x parameter set x budget N <= 24 quick / 40 thorough x sampling seed x K in {1 (bit-exact), 2..4 (tolerances)} x scheduler policy), executed as ONE simulated execution: prefix solves with budgets 0..N and threshold 0 give the bound history (budget 0 must leave both bounds infinite); then solves with r in {-1, 0, NaN, +inf} and 8 thresholds drawn from {b_t(1-eps), b_t, b_t(1+eps)} must equal the prefix run with budget t* = first t with max bound < r (N if none); every threshold that is reached within N iterations is also run with budget u64::MAX (unlimited) and N+1e9 and must give the same prefix. Every run is non-trivial (>= 12 thresholded solves judged); distinct = distinct (configuration, scheduler-decision sequence) hashes".into()
    }

    fn assumptions(&self) -> Vec<String> {
        vec![
            "K = 1 comparisons are bit-exact (strategies and bounds); K > 1 uses the C06 tolerances and places thresholds at b_t(1 +- 1e-6) only".into(),
            "the keyed RNG makes a budget-t run a prefix of the budget-N run for the sampled methods".into(),
        ]
    }

    fn extra_evidence(&self, _agg: &Aggregate) -> Value {
        Value::Null
    }
}
