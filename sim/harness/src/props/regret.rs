//! C02 (vanilla Full bound dominates the true regret), C03 (CFR rate envelopes),
//! C04 (sampled solvers converge): the library's result is judged by the independent
//! evaluator, under K simulated threads and seeded schedules / sampling histories.
use crate::common::*;
use crate::driver::{Aggregate, Prop};
use crate::eval;
use crate::gen;
use crate::lib_case_boilerplate;
use crate::props::threads::rayon_metrics;
use crate::rng::{Fnv, Rng};
use crate::sched::{simulate, SchedSpec};
use crate::shrink::shrink_lib_case;
use crate::solve::{observed_solve, step_budget, SolveCfg, SolveOut};
use cfr_verif_seam::Cores;
use serde_json::{json, Value};
use std::collections::BTreeMap;
use std::sync::Arc;

fn pick_k(r: &mut Rng, max: usize) -> usize {
    match r.below(10) {
        0..=3 => 1,
        4..=6 => 2,
        7 => 3,
        _ => r.usize_in(4, max),
    }
}

/// one solve inside one simulated execution
fn run_one(case: &LibCase, cfg: SolveCfg, m: &mut Metrics, h: &mut Fnv) -> Result<(SolveOut, crate::sched::Trace), Verdict> {
    let model = Arc::new(case.game.clone());
    let c1 = cfg.clone();
    let sim = simulate(&case.sched, move || -> Result<SolveOut, String> {
        let game = model.build().map_err(|e| format!("{e:?}"))?;
        Ok(observed_solve(&game, &c1))
    });
    m.add("executions", 1);
    m.add("sched_steps", sim.sched.steps);
    m.add("sched_preemptions", sim.sched.preemptions);
    m.interleavings.push(sim.sched.trace.hash());
    h.u64(sim.sched.trace.hash());
    match sim.value {
        Err(f) => Err(viol(f.class(), "", f.message().lines().next().unwrap_or("").to_string())),
        Ok(Err(_)) => Err(Verdict::Skip("game-rejected")),
        Ok(Ok(out)) => {
            out.hash_into(h);
            rayon_metrics(m, &out.rayon);
            if cfg.k > 1 && out.rayon.max_workers >= 2 && sim.sched.preemptions >= 1 {
                m.add("probe_two_or_more_workers_interleaved", 1);
            }
            Ok((out, sim.sched.trace))
        }
    }
}

/// validate the evaluator against brute force where that is affordable
fn oracle_self_check(case: &LibCase, prof: &crate::model::Profile, info: &eval::Info, m: &mut Metrics) -> Result<(), String> {
    let d = case.game.stats().d().max(1e-300);
    for p in 0..2 {
        if let Some(bf) = eval::brute_force_br(&case.game, p, prof, 64) {
            m.add("oracle_brute_force_cross_checks", 1);
            let u = if p == 0 { info.util } else { -info.util };
            let reg = (bf - u).max(0.0);
            if (reg - info.regret[p]).abs() > 1e-9 * d {
                return Err(format!("evaluator self-check failed: best response of player {} gives regret {} but brute force over pure strategies gives {}", p + 1, info.regret[p], reg));
            }
        }
    }
    Ok(())
}

// ------------------------------------------------------------------------------------ C02

pub struct BoundDominates;

impl Prop for BoundDominates {
    type Case = LibCase;

    fn id(&self) -> &'static str {
        "C02"
    }

    fn runs(&self, tier: Tier) -> u64 {
        match tier {
            Tier::Quick => 120_000,
            Tier::Thorough => 2_400_000,
        }
    }

    fn gen(&self, r: &mut Rng, tier: Tier, _idx: u64) -> LibCase {
        let shapes = ["tiny", "tiny", "tiny", "mixed", "degenerate", "lopsided", "bushy", "simultaneous", "poker", "chain"];
        let (game, shape) = gen::game(r, &shapes, 1);
        let mut k = pick_k(r, 16);
        let t = match tier {
            Tier::Quick => match r.below(10) {
                0..=5 => r.usize_in(1, 12) as u64,
                _ => r.usize_in(13, 64) as u64,
            },
            Tier::Thorough => match r.below(20) {
                0..=9 => r.usize_in(1, 12) as u64,
                10..=16 => r.usize_in(13, 200) as u64,
                _ => r.usize_in(201, 2000) as u64,
            },
        };
        if t > 200 {
            k = 1;
        }
        // a few very long runs on tiny games: whatever only shows after tens of thousands of
        // iterations (accumulators that are rescaled, counters that wrap, weights that underflow)
        let (game, shape, t, k) = if r.coin(0.003) {
            let (g, s) = gen::game(r, &["tiny"], 1);
            (g, s, *r.pick(&[30_000u64, 70_000, 140_000]), *r.pick(&[1usize, 1, 2]))
        } else {
            (game, shape, t, k)
        };
        let d = game.stats().d();
        // thresholds: none, +inf, or a value in the range where bounds of such runs live
        let thresh = match r.below(10) {
            0..=3 => 0.0,
            4 => f64::INFINITY,
            _ => d * *r.pick(&[0.01, 0.03, 0.1, 0.3, 1.0, 3.0]) * (0.5 + r.f()),
        };
        LibCase {
            game,
            shape: shape.to_string(),
            method: Method::Full,
            params: ParamSpec::Preset("vanilla"),
            t,
            thresh,
            k,
            cores: Cores::Real,
            sampling_seed: r.next(),
            fail_build: false,
            buggify: r.coin(0.8),
            sched: SchedSpec::swarm(r),
            extra: Value::Null,
        }
    }

    fn run(&self, case: &LibCase) -> RunOut {
        let mut m = Metrics::default();
        m.game_hash = case.game.hash();
        let st = case.game.stats();
        let mut h = Fnv::default();
        let mut cfg = SolveCfg::new(Method::Full, case.params.clone(), case.t, case.thresh, case.k, case.sampling_seed);
        cfg.buggify = case.buggify;
        cfg.step_budget = step_budget(st.nodes, case.t, case.k);
        let (out, trace) = match run_one(case, cfg, &mut m, &mut h) {
            Ok(x) => x,
            Err(v) => return finish(m, h, v, vec![]),
        };
        let traces = vec![trace];
        let s = match &out.result {
            Ok(s) => s,
            Err(e) => return finish(m, h, viol("solve-error", "", format!("{e:?}")), traces),
        };
        let info = eval::evaluate(&case.game, &s.profile);
        if let Err(e) = oracle_self_check(case, &s.profile, &info, &mut m) {
            return finish(m, h, Verdict::Harness(e), traces);
        }
        // tolerance relative to the reach-weighted magnitude of the game, not to its payoff range
        // (they differ by many orders of magnitude in a lottery game)
        let tol = 2e-9 * case.game.mag().max(1e-300);
        m.add("probe_lottery_game", (st.d() > 1e6 * case.game.mag()) as u64);
        m.nontrivial_key = Some(case.config_hash() ^ traces[0].hash());
        let early = s.total_bound < case.thresh;
        m.add("probe_early_stop_taken", early as u64);
        m.add("probe_budget_of_30000_or_more_iterations", (case.t >= 30_000) as u64);
        if info.total() > 0.0 && s.total_bound > 0.0 {
            m.max("max_true_regret_over_bound", info.total() / s.total_bound);
            if info.total() / s.total_bound >= 0.5 {
                m.add("probe_regret_at_least_half_the_bound", 1);
            }
        }
        for p in 0..2 {
            if !(s.bounds[p] >= 0.0) {
                return finish(m, h, viol("bound-negative-or-nan", "", format!("player {} bound {}", p + 1, s.bounds[p])), traces);
            }
        }
        if s.total_bound.to_bits() != s.bounds[0].max(s.bounds[1]).to_bits() {
            return finish(m, h, viol("total-bound-not-max", "", format!("total {} vs players {:?}", s.total_bound, s.bounds)), traces);
        }
        if s.total_bound + tol < info.total() {
            return finish(
                m,
                h,
                viol(
                    "bound-below-regret",
                    "",
                    format!("T={} K={} r={}: returned bound {:.9e} < true regret {:.9e} (players {:?})", case.t, case.k, case.thresh, s.total_bound, info.total(), info.regret),
                ),
                traces,
            );
        }
        if early && !(info.total() < case.thresh + tol) {
            return finish(m, h, viol("early-stop-regret-above-threshold", "", format!("stopped with bound {} < r={} but true regret {}", s.total_bound, case.thresh, info.total())), traces);
        }
        finish(m, h, Verdict::Pass, traces)
    }

    lib_case_boilerplate!();

    fn shrink(&self, c: &LibCase) -> Vec<LibCase> {
        let mut v = shrink_lib_case(c);
        v.retain(|n| n.params == ParamSpec::Preset("vanilla") && n.t >= 1);
        if c.k == 2 {
            let mut n = c.clone();
            n.k = 1;
            v.insert(0, n);
        }
        v
    }

    fn rule(&self) -> String {
        "one run = one seeded case (generated game x T in 1..64 quick / 1..2000 thorough x threshold in {0, +inf, values in the range of the bounds} x K in 1..16 x scheduler policy x stub coins): solve(Full, T, r, K, vanilla) inside one simulated execution, then the returned profile is evaluated by the independent best-response evaluator (itself cross-checked against brute force over pure strategies where a player has <= 64 of them). The comparison tolerance is 2e-9 x the game's reach-weighted magnitude (not its payoff range). Every run is non-trivial (each compares a bound with an independently computed regret); distinct = distinct (configuration, scheduler-decision sequence) hashes".into()
    }

    fn assumptions(&self) -> Vec<String> {
        vec![
            "tolerance 1e-9*D on the comparison bound >= regret".into(),
            "the rayon stand-in over-approximates rayon's contract; shuttle's SC model (DESIGN 2.2, 10)".into(),
        ]
    }
}

// ------------------------------------------------------------------------------------ C03

pub struct CfrRate;

impl Prop for CfrRate {
    type Case = LibCase;

    fn id(&self) -> &'static str {
        "C03"
    }

    fn runs(&self, tier: Tier) -> u64 {
        match tier {
            Tier::Quick => 60_000,
            Tier::Thorough => 1_200_000,
        }
    }

    fn gen(&self, r: &mut Rng, tier: Tier, _idx: u64) -> LibCase {
        let shapes = ["chain", "chain", "poker", "degenerate", "degenerate", "simultaneous", "lopsided", "bushy", "mixed", "tiny"];
        let (game, shape) = gen::game(r, &shapes, 1);
        let max_pow = match tier {
            Tier::Quick => 10,
            Tier::Thorough => 12,
        };
        // small budgets are as likely as large ones
        let t = 1u64 << r.usize_in(0, max_pow);
        let mut k = pick_k(r, 16);
        if t > 256 {
            k = 1;
        }
        LibCase {
            game,
            shape: shape.to_string(),
            method: Method::Full,
            params: ParamSpec::Preset(PRESETS[r.below(5) as usize]),
            t,
            thresh: 0.0,
            k,
            cores: Cores::Real,
            sampling_seed: r.next(),
            fail_build: false,
            buggify: r.coin(0.8),
            sched: SchedSpec::swarm(r),
            extra: Value::Null,
        }
    }

    fn run(&self, case: &LibCase) -> RunOut {
        let mut m = Metrics::default();
        m.game_hash = case.game.hash();
        let st = case.game.stats();
        let mut h = Fnv::default();
        let mut cfg = SolveCfg::new(Method::Full, case.params.clone(), case.t, 0.0, case.k, case.sampling_seed);
        cfg.buggify = case.buggify;
        cfg.step_budget = step_budget(st.nodes, case.t, case.k);
        let (out, trace) = match run_one(case, cfg, &mut m, &mut h) {
            Ok(x) => x,
            Err(v) => return finish(m, h, v, vec![]),
        };
        let traces = vec![trace];
        let s = match &out.result {
            Ok(s) => s,
            Err(e) => return finish(m, h, viol("solve-error", "", format!("{e:?}")), traces),
        };
        let info = eval::evaluate(&case.game, &s.profile);
        if let Err(e) = oracle_self_check(case, &s.profile, &info, &mut m) {
            return finish(m, h, Verdict::Harness(e), traces);
        }
        let (d, n, a, t) = (st.d(), st.n() as f64, st.a() as f64, case.t as f64);
        let tol = 1e-9 * d.max(1e-300);
        m.nontrivial_key = Some(case.config_hash() ^ traces[0].hash());
        let env1 = 2.0 * d * n * a.sqrt() / t.sqrt();
        let env2 = 6.0 * d * n * (a.sqrt() + 1.0 / t.sqrt()) / t.sqrt();
        if case.params == ParamSpec::Preset("vanilla") {
            for p in 0..2 {
                if env1 > 0.0 {
                    m.max("max_vanilla_bound_over_envelope", s.bounds[p] / env1);
                }
                if !(s.bounds[p] <= env1 + tol) {
                    return finish(
                        m,
                        h,
                        viol("envelope", "vanilla-bound", format!("T={} K={}: player {} bound {:.6e} > 2*D*N*sqrt(A)/sqrt(T) = {:.6e} (D={d:.3e} N={n} A={a})", case.t, case.k, p + 1, s.bounds[p], env1)),
                        traces,
                    );
                }
            }
        }
        if env2 > 0.0 {
            m.max("max_true_regret_over_envelope", info.total() / env2);
        }
        if !(info.total() <= env2 + tol) {
            return finish(
                m,
                h,
                viol("envelope", "true-regret", format!("{} T={} K={}: true regret {:.6e} > 6*D*N*(sqrt(A)+1/sqrt(T))/sqrt(T) = {:.6e} (D={d:.3e} N={n} A={a})", case.params.name(), case.t, case.k, info.total(), env2)),
                traces,
            );
        }
        finish(m, h, Verdict::Pass, traces)
    }

    lib_case_boilerplate!();

    fn shrink(&self, c: &LibCase) -> Vec<LibCase> {
        let mut v = shrink_lib_case(c);
        // the preset is part of the claim; keep it
        v.retain(|n| n.params == c.params && n.t >= 1 && n.thresh == 0.0);
        if c.k == 2 {
            let mut n = c.clone();
            n.k = 1;
            v.insert(0, n);
        }
        v
    }

    fn rule(&self) -> String {
        "one run = one seeded case (generated game incl. adversarial shapes: deep chains, shared infosets, 1e-3 chance outcomes, dominated actions x one of the five presets x budget T = 2^0..2^10 quick / 2^12 thorough x K in 1..16 for T <= 256 x scheduler policy x stub coins): solve(Full, T, 0, K, preset) in one simulated execution; per-player bounds (vanilla) and the independently evaluated true regret (every preset) are compared with the envelopes of the property, D, N, A computed from the generator's tree. Every run is non-trivial; distinct = distinct (configuration, scheduler-decision sequence) hashes. The game x budget sweep is plain seeded generation; the simulator contributes the thread-count / schedule dimension".into()
    }

    fn assumptions(&self) -> Vec<String> {
        vec!["envelopes taken from the property as given; +1e-9*D tolerance".into(), "N = number of multi-action infosets of both players, A = largest action count, D = max - min terminal payoff".into()]
    }
}

// ------------------------------------------------------------------------------------ C04

pub struct SampledConverge;

pub const C04_CHECKPOINTS: [u64; 4] = [100, 400, 1600, 3200];

impl Prop for SampledConverge {
    type Case = LibCase;

    fn id(&self) -> &'static str {
        "C04"
    }

    fn runs(&self, tier: Tier) -> u64 {
        match tier {
            Tier::Quick => 5_000,
            Tier::Thorough => 100_000,
        }
    }

    fn gen(&self, r: &mut Rng, _tier: Tier, idx: u64) -> LibCase {
        let shapes = ["poker", "poker", "mixed", "degenerate", "simultaneous", "lopsided", "bushy", "chain", "tiny"];
        let (game, shape) = gen::game_with(r, &shapes, 1, |s| {
            s.max_nodes = s.max_nodes.min(160);
        });
        // cells are filled round-robin so that every (method, preset) population has the same size
        let cell = idx % 10;
        let method = if cell < 5 { Method::Sampled } else { Method::External };
        let preset = PRESETS[(cell % 5) as usize];
        LibCase {
            game,
            shape: shape.to_string(),
            method,
            params: ParamSpec::Preset(preset),
            t: 3200,
            thresh: 0.0,
            k: if r.coin(0.5) { 1 } else { r.usize_in(2, 8) },
            cores: Cores::Real,
            sampling_seed: r.next(),
            fail_build: false,
            buggify: r.coin(0.8),
            sched: SchedSpec::swarm(r),
            extra: Value::Null,
        }
    }

    fn run(&self, case: &LibCase) -> RunOut {
        let mut m = Metrics::default();
        m.game_hash = case.game.hash();
        let st = case.game.stats();
        let mut h = Fnv::default();
        let (d, n, a) = (st.d(), st.n() as f64, st.a() as f64);
        let tol = 1e-9 * d.max(1e-300);
        let mut traces = vec![];
        let cell = format!("{}/{}", case.method.name(), case.params.name());
        m.nontrivial_key = Some(case.config_hash());
        for &t in C04_CHECKPOINTS.iter().filter(|t| **t <= case.t) {
            // K simulated threads up to 400 iterations, one thread above (cost)
            let k = if t <= 400 { case.k } else { 1 };
            let mut cfg = SolveCfg::new(case.method, case.params.clone(), t, 0.0, k, case.sampling_seed);
            cfg.buggify = case.buggify;
            cfg.step_budget = step_budget(st.nodes, t, k);
            let (out, trace) = match run_one(case, cfg, &mut m, &mut h) {
                Ok(x) => x,
                Err(v) => return finish(m, h, v, traces),
            };
            traces.push(trace);
            let s = match &out.result {
                Ok(s) => s,
                Err(e) => return finish(m, h, viol("solve-error", "", format!("{e:?}")), traces),
            };
            let info = eval::evaluate(&case.game, &s.profile);
            if t == C04_CHECKPOINTS[0] {
                if let Err(e) = oracle_self_check(case, &s.profile, &info, &mut m) {
                    return finish(m, h, Verdict::Harness(e), traces);
                }
            }
            m.add("draws_made", out.seam.draw_counts.len() as u64);
            let env = d * n * a.sqrt() / (t as f64).sqrt();
            if env > 0.0 {
                m.max("max_true_regret_over_envelope", info.total() / env);
            }
            if d > 0.0 {
                m.records.push((format!("{cell}@{t}"), info.total() / d));
            }
            if !(info.total() <= env + tol) {
                return finish(
                    m,
                    h,
                    viol("envelope", "", format!("{cell} T={t} K={k}: true regret {:.6e} > D*N*sqrt(A)/sqrt(T) = {:.6e} (D={d:.3e} N={n} A={a})", info.total(), env)),
                    traces,
                );
            }
        }
        finish(m, h, Verdict::Pass, traces)
    }

    fn case_to_json(&self, c: &LibCase) -> Value {
        c.to_json()
    }
    fn case_from_json(&self, v: &Value) -> Result<LibCase, String> {
        LibCase::from_json(v)
    }
    fn summary(&self, c: &LibCase) -> Value {
        c.summary()
    }
    // several executions per run: replay re-runs them under their seeded schedules (which is
    // deterministic), so the case keeps its seeded SchedSpec
    fn with_replay(&self, c: &LibCase, _traces: &[crate::sched::Trace]) -> LibCase {
        c.clone()
    }
    fn with_sched_seed(&self, c: &LibCase, seed: Option<u64>) -> LibCase {
        let mut n = c.clone();
        n.sched = match seed {
            None => SchedSpec::nopreempt(),
            Some(s) => SchedSpec::random(s),
        };
        n
    }

    fn shrink(&self, c: &LibCase) -> Vec<LibCase> {
        let mut v = vec![];
        // drop the later checkpoints, then shrink the configuration and the tree
        for &t in C04_CHECKPOINTS.iter().rev() {
            if t < c.t {
                let mut n = c.clone();
                n.t = t;
                v.push(n);
            }
        }
        for n in shrink_lib_case(c) {
            if n.params == c.params && n.t == c.t && n.thresh == 0.0 {
                v.push(n);
            }
        }
        if c.k == 2 {
            let mut n = c.clone();
            n.k = 1;
            v.insert(0, n);
        }
        v
    }

    fn schedule_dependent(&self) -> bool {
        false
    }

    fn population_verdict(&self, agg: &Aggregate) -> Option<Violation> {
        let mut cells: BTreeMap<String, Vec<f64>> = BTreeMap::new();
        for (_, k, v) in &agg.records {
            cells.entry(k.clone()).or_default().push(*v);
        }
        for method in ["sampled", "external"] {
            for preset in PRESETS {
                let lo = cells.get(&format!("{method}/{preset}@100"));
                let hi = cells.get(&format!("{method}/{preset}@3200"));
                if let (Some(lo), Some(hi)) = (lo, hi) {
                    if hi.len() < 150 {
                        continue;
                    }
                    let mut sorted = hi.clone();
                    sorted.sort_by(|a, b| a.partial_cmp(b).unwrap());
                    let median = sorted[sorted.len() / 2];
                    let mean_hi: f64 = hi.iter().sum::<f64>() / hi.len() as f64;
                    let mean_lo: f64 = lo.iter().sum::<f64>() / lo.len() as f64;
                    if !(median < 0.01) {
                        return Some(Violation { class: "population-median".into(), sig: format!("{method}/{preset}"), message: format!("{method}/{preset}: median regret/D after 3200 iterations over {} games is {median:.4e} (must be < 0.01)", hi.len()) });
                    }
                    if !(mean_hi < 0.5 * mean_lo) {
                        return Some(Violation { class: "population-no-progress".into(), sig: format!("{method}/{preset}"), message: format!("{method}/{preset}: mean regret/D {mean_hi:.4e} after 3200 iterations is not below half of {mean_lo:.4e} after 100 (over {} games)", hi.len()) });
                    }
                }
            }
        }
        None
    }

    fn extra_evidence(&self, agg: &Aggregate) -> Value {
        let mut cells: BTreeMap<String, Vec<f64>> = BTreeMap::new();
        for (_, k, v) in &agg.records {
            cells.entry(k.clone()).or_default().push(*v);
        }
        let mut table = serde_json::Map::new();
        for (k, v) in &cells {
            let mut s = v.clone();
            s.sort_by(|a, b| a.partial_cmp(b).unwrap());
            table.insert(k.clone(), json!({"games": s.len(), "median_regret_over_D": s[s.len() / 2], "mean_regret_over_D": s.iter().sum::<f64>() / s.len() as f64, "max_regret_over_D": s[s.len() - 1]}));
        }
        json!({"population": table, "population_oracle": "per (method, preset) with >= 150 games: median(regret/D)@3200 < 0.01 and mean(regret/D)@3200 < 0.5 * mean(regret/D)@100"})
    }

    fn rule(&self) -> String {
        "one run = one generated game x one (method in {Sampled, External}, preset) cell (round-robin) x one seeded sampling history x K (1 or 2..8 simulated threads for T <= 400) x scheduler policy: the game is solved at the checkpoints T = 100, 400, 1600, 3200 (each solve is one simulated execution; draws are the production samplers on the keyed RNG) and the independently evaluated true regret is compared with D*N*sqrt(A)/sqrt(T); regret/D per checkpoint is kept for the population oracle. Every run is non-trivial (>= 1 draw per iteration); distinct = distinct (game, cell, sampling seed, K) hashes".into()
    }

    fn assumptions(&self) -> Vec<String> {
        vec![
            "the claim is probabilistic: draws are pinned per VERIF_SEED, a different seed is a different sample; the observed maximum regret/envelope ratio is reported on every run so that drift is visible long before it could alarm (DESIGN 6 C04)".into(),
            "population statistics use the games of this batch only".into(),
        ]
    }
}
