//! C05: every solve returns a well-formed profile or the documented thread-count error;
//! never panics, hangs or deadlocks — under schedules and injected pool-build / core-count faults.
use crate::common::*;
use crate::cond;
use crate::driver::Prop;
use crate::gen;
use crate::model::{check_profile, profile_diff, MNode};
use crate::props::threads::{bound_tol, random_params, rayon_metrics, PROB_TOL};
use crate::rng::{Fnv, Rng};
use crate::sched::{simulate, SchedSpec, Trace};
use crate::shrink::shrink_lib_case;
use crate::solve::{observed_solve, step_budget, ErrKind, SolveCfg, SolveOut};
use cfr_verif_seam::Cores;
use serde_json::{json, Value};
use std::sync::Arc;

pub struct Totality;

const MAX_SPAWN: usize = 4096;

/// Make a player forget an own action: rename the infosets below two different actions of
/// one decision node to a common name (only where the action lists match). The result is
/// outside the documented class; whether `from_root` accepts it is part of what is probed.
pub fn forget_own_action(g: &MNode, r: &mut Rng) -> Option<MNode> {
    // collect (player, infoset) pairs that appear as the first own infoset below two different actions
    fn first_own<'a>(n: &'a MNode, p: usize, out: &mut Vec<(&'a str, usize)>) {
        match n {
            MNode::T(_) => {}
            MNode::C { outs, .. } => outs.iter().for_each(|(_, _, c)| first_own(c, p, out)),
            MNode::P { player, info, acts } => {
                if *player == p && acts.len() > 1 {
                    out.push((info, acts.len()));
                } else {
                    acts.iter().for_each(|(_, c)| first_own(c, p, out));
                }
            }
        }
    }
    fn candidates(n: &MNode, res: &mut Vec<(usize, String, String)>) {
        match n {
            MNode::T(_) => {}
            MNode::C { outs, .. } => outs.iter().for_each(|(_, _, c)| candidates(c, res)),
            MNode::P { player, acts, .. } => {
                if acts.len() > 1 {
                    let firsts: Vec<Vec<(&str, usize)>> = acts
                        .iter()
                        .map(|(_, c)| {
                            let mut v = vec![];
                            first_own(c, *player, &mut v);
                            v
                        })
                        .collect();
                    for i in 0..firsts.len() {
                        for j in i + 1..firsts.len() {
                            for (a, na) in &firsts[i] {
                                for (b, nb) in &firsts[j] {
                                    if na == nb && a != b {
                                        res.push((*player, a.to_string(), b.to_string()));
                                    }
                                }
                            }
                        }
                    }
                }
                acts.iter().for_each(|(_, c)| candidates(c, res));
            }
        }
    }
    fn rename(n: &MNode, p: usize, from: &str, to: &str) -> MNode {
        match n {
            MNode::T(x) => MNode::T(*x),
            MNode::C { info, outs } => MNode::C {
                info: info.clone(),
                outs: outs.iter().map(|(a, w, c)| (a.clone(), *w, rename(c, p, from, to))).collect(),
            },
            MNode::P { player, info, acts } => MNode::P {
                player: *player,
                info: if *player == p && info == from { to.to_string() } else { info.clone() },
                acts: acts.iter().map(|(a, c)| (a.clone(), rename(c, p, from, to))).collect(),
            },
        }
    }
    let mut c = vec![];
    candidates(g, &mut c);
    if c.is_empty() {
        return None;
    }
    let (p, a, b) = r.pick(&c).clone();
    Some(rename(g, p, &b, &a))
}

/// Give one node of a multi-node, multi-action infoset a single action only ("one action
/// here, several there"): nodes of one infoset no longer list the same actions.
pub fn single_and_multi(g: &MNode, r: &mut Rng) -> Option<MNode> {
    fn count(n: &MNode, m: &mut std::collections::BTreeMap<(usize, String), usize>) {
        match n {
            MNode::T(_) => {}
            MNode::C { outs, .. } => outs.iter().for_each(|(_, _, c)| count(c, m)),
            MNode::P { player, info, acts } => {
                if acts.len() > 1 {
                    *m.entry((*player, info.clone())).or_insert(0) += 1;
                }
                acts.iter().for_each(|(_, c)| count(c, m));
            }
        }
    }
    fn cut(n: &MNode, p: usize, name: &str, which: &mut isize) -> MNode {
        match n {
            MNode::T(x) => MNode::T(*x),
            MNode::C { info, outs } => MNode::C { info: info.clone(), outs: outs.iter().map(|(a, w, c)| (a.clone(), *w, cut(c, p, name, which))).collect() },
            MNode::P { player, info, acts } => {
                if *player == p && info == name {
                    *which -= 1;
                    if *which == -1 {
                        return MNode::P { player: *player, info: info.clone(), acts: vec![(acts[0].0.clone(), cut(&acts[0].1, p, name, which))] };
                    }
                }
                MNode::P { player: *player, info: info.clone(), acts: acts.iter().map(|(a, c)| (a.clone(), cut(c, p, name, which))).collect() }
            }
        }
    }
    let mut m = std::collections::BTreeMap::new();
    count(g, &mut m);
    let cands: Vec<((usize, String), usize)> = m.into_iter().filter(|(_, c)| *c >= 2).collect();
    if cands.is_empty() {
        return None;
    }
    let ((p, name), c) = r.pick(&cands).clone();
    let mut which = r.below(c as u64) as isize;
    Some(cut(g, p, &name, &mut which))
}

fn expected_kind(k: usize, cores: Cores, fail_build: bool) -> (&'static str, usize) {
    let eff = if k != 0 {
        k
    } else {
        match cores {
            Cores::Unknown => 1,
            Cores::Count(n) => n.max(1),
            Cores::Real => std::thread::available_parallelism().map(|n| n.get()).unwrap_or(1),
        }
    };
    if eff == 1 {
        ("ok", eff)
    } else if eff.checked_mul(3).is_none() {
        ("overflow", eff)
    } else if fail_build {
        ("spawn-injected", eff)
    } else if eff > MAX_SPAWN {
        ("spawn-or-overflow", eff)
    } else {
        ("ok", eff)
    }
}

impl Prop for Totality {
    type Case = LibCase;

    fn id(&self) -> &'static str {
        "C05"
    }

    fn runs(&self, tier: Tier) -> u64 {
        match tier {
            Tier::Quick => 400_000,
            Tier::Thorough => 8_000_000,
        }
    }

    fn gen(&self, r: &mut Rng, tier: Tier, _idx: u64) -> LibCase {
        let shapes = ["tiny", "tiny", "simultaneous", "simultaneous", "lopsided", "bushy", "poker", "chain", "degenerate", "mixed"];
        let integer = r.coin(0.3);
        let (mut game, shape) = gen::game_with(r, &shapes, 0, |s| {
            s.integer_payoffs = integer;
        });
        // extreme but finite payoff magnitudes (products with probabilities stay finite)
        let mut scale = 1.0;
        if r.coin(0.12) {
            scale = *r.pick(&[1e-310, 1e-300, 1e-100, 1e-30, 1e-8, 1e8, 1e30, 1e100, 1e250]);
            game = game.map_payoffs(&mut |x| x * scale);
        }
        // chance weights are unnormalised: any positive finite magnitude is inside the contract
        let mut wscale = 1.0;
        if r.coin(0.06) {
            wscale = *r.pick(&[1e-310, 1e-300, 1e-150, 1e150, 1e300, 8e307]);
            game = game.map_weights(&mut |w| w * wscale);
        }
        // legal oddities: a negative zero among the payoffs; the smallest game there is (a terminal root)
        if r.coin(0.03) {
            let mut k = 0u32;
            game = game.map_payoffs(&mut |x| {
                k += 1;
                if k % 3 == 1 { -0.0 } else { x }
            });
        }
        if r.coin(0.003) {
            game = MNode::T(if integer { 3.0 } else { -0.75 } * scale);
        }
        let mut edge = "none";
        let force_edge = std::env::var("VERIF_C05_FORCE_EDGE").is_ok();
        if r.coin(0.08) || force_edge {
            if r.coin(0.5) {
                if let Some(g2) = forget_own_action(&game, r) {
                    game = g2;
                    edge = "own-action-forgotten";
                }
            } else if let Some(g2) = single_and_multi(&game, r) {
                game = g2;
                edge = "one-action-here-several-there";
            }
        }
        let method = if force_edge { Method::External } else { *r.pick(&Method::ALL) };
        let ts: &[u64] = match tier {
            Tier::Quick => &[0, 0, 1, 1, 2, 3, 4, 5, 8, 13, 30],
            Tier::Thorough => &[0, 1, 1, 2, 3, 4, 5, 8, 13, 30, 60, 120],
        };
        let t = *r.pick(ts);
        let d = game.stats().d();
        let thresh = match r.below(10) {
            0 => -1.0,
            1 => f64::NAN,
            2 => f64::INFINITY,
            3 => d * 0.3,
            4 => d * 3.0,
            _ => 0.0,
        };
        // an unlimited budget with a threshold that the first iteration already meets
        // (only on games with a decision infoset: the step budget that turns a run-away loop into
        // a verdict counts decision-node visits)
        let (t, thresh) = if game.stats().n() >= 1 && r.coin(0.03) { (u64::MAX, f64::INFINITY) } else { (t, thresh) };
        let (k, cores) = match r.below(20) {
            0 => (0, Cores::Unknown),
            1 => (0, Cores::Count(*r.pick(&[1usize, 2, 16, 64]))),
            2 => (1, Cores::Real),
            3 => (1, Cores::Unknown),
            4 => (usize::MAX / 3, Cores::Real),
            5 => (usize::MAX / 3 + 1, Cores::Real),
            6 => (usize::MAX, Cores::Real),
            7 => (*r.pick(&[MAX_SPAWN, MAX_SPAWN + 1, 65_535]), Cores::Real),
            8..=12 => (2, Cores::Real),
            13..=14 => (3, Cores::Real),
            _ => (r.usize_in(4, 16), Cores::Real),
        };
        let fail_build = r.coin(0.1);
        LibCase {
            game,
            shape: shape.to_string(),
            method,
            params: random_params(r),
            t,
            thresh,
            k,
            cores,
            sampling_seed: r.next(),
            fail_build,
            buggify: r.coin(0.8),
            sched: SchedSpec::swarm(r),
            extra: json!({"edge": edge, "payoff_scale": scale, "weight_scale": wscale}),
        }
    }

    fn run(&self, case: &LibCase) -> RunOut {
        let mut m = Metrics::default();
        m.game_hash = case.game.hash();
        let st = case.game.stats();
        let model = Arc::new(case.game.clone());
        let (want, eff) = expected_kind(case.k, case.cores, case.fail_build);
        // a pool of thousands of simulated workers on a small tree only spawns min(K, items)
        let mut cfg = SolveCfg::new(case.method, case.params.clone(), case.t, case.thresh, case.k, case.sampling_seed);
        cfg.cores = case.cores;
        cfg.fail_build = case.fail_build;
        cfg.buggify = case.buggify;
        cfg.max_spawn = MAX_SPAWN;
        // (an unlimited budget is only generated together with a threshold of +inf: one iteration)
        cfg.step_budget = step_budget(st.nodes, if case.t == u64::MAX { 2 } else { case.t }, eff.min(64));
        m.add("probe_unlimited_budget", (case.t == u64::MAX) as u64);
        let (c1, md) = (cfg.clone(), model.clone());
        let fault = case.fail_build;
        // a caller may solve again on the same thread: nothing a call leaves behind (pools,
        // worker registrations, thread-locals) may make the next one fail or differ
        let again = !fault && case.sampling_seed % 4 == 0;
        let sim = simulate(&case.sched, move || -> Result<(SolveOut, Option<SolveOut>), String> {
            let game = md.build().map_err(|e| format!("{e:?}"))?;
            let a = observed_solve(&game, &c1);
            // progress once faults stop: the same call on the same Game with the fault cleared
            let b = if fault {
                let mut c2 = c1.clone();
                c2.fail_build = false;
                Some(observed_solve(&game, &c2))
            } else if again {
                Some(observed_solve(&game, &c1))
            } else {
                None
            };
            Ok((a, b))
        });
        m.add("executions", 1);
        m.add("sched_steps", sim.sched.steps);
        m.add("sched_preemptions", sim.sched.preemptions);
        m.interleavings.push(sim.sched.trace.hash());
        let mut h = Fnv::default();
        h.u64(sim.sched.trace.hash());
        let traces = vec![sim.sched.trace.clone()];
        let edge = case.extra["edge"].as_str().unwrap_or("none").to_string();
        let sig = if edge == "none" { String::new() } else { edge.clone() };
        let finish = |mut m: Metrics, mut h: Fnv, v: Verdict, traces: Vec<Trace>| {
            if let Verdict::Violation(x) = &v {
                h.str(&x.class);
            }
            m.log_hash = h.finish();
            RunOut { verdict: v, metrics: m, traces }
        };
        let (a, b) = match sim.value {
            Err(f) => return finish(m, h, viol(f.class(), sig, f.message().lines().next().unwrap_or("").to_string()), traces),
            Ok(Err(_)) => {
                m.add("edge_tree_rejected_by_from_root", (edge != "none") as u64);
                return finish(m, h, Verdict::Skip("game-rejected"), traces);
            }
            Ok(Ok(x)) => x,
        };
        if edge != "none" {
            m.add("edge_tree_accepted_by_from_root", 1);
        }
        a.hash_into(&mut h);
        rayon_metrics(&mut m, &a.rayon);
        m.add("fault_pool_build_fail", a.rayon.build_failures_injected);
        m.add("fault_pool_too_many_threads", a.rayon.build_failures_too_many);
        m.add("fault_cores_unknown", a.seam.stats.cores_unknown_fired);
        m.add("fault_cores_override", a.seam.stats.cores_override_fired);
        m.add("fault_worker_starved_pct_schedule", matches!(case.sched.policy, crate::sched::Policy::Pct { .. }) as u64);
        m.add("probe_zero_iterations", (case.t == 0) as u64);
        for sp in case.game.shape_probes() {
            m.add(sp, 1);
        }
        m.add("probe_nan_threshold", case.thresh.is_nan() as u64);
        m.add("probe_extreme_payoff_scale", (case.extra["payoff_scale"].as_f64().unwrap_or(1.0) != 1.0) as u64);
        if a.rayon.build_failures_injected + a.rayon.build_failures_too_many + a.seam.stats.cores_unknown_fired + a.seam.stats.cores_override_fired > 0
            || (a.rayon.max_workers >= 2 && sim.sched.preemptions >= 1)
        {
            m.nontrivial_key = Some(crate::rng::mix(case.config_hash(), sim.sched.trace.hash()));
        }
        // pool size actually requested (observed, not assumed)
        if let Some(sz) = a.rayon.pool_sizes.first() {
            if *sz != eff {
                return finish(m, h, viol("wrong-pool-size", sig, format!("num_threads={} cores={:?}: pool of {} requested, expected {}", case.k, case.cores, sz, eff)), traces);
            }
        } else if eff != 1 && want != "overflow" {
            return finish(m, h, viol("wrong-pool-size", sig, format!("num_threads={} cores={:?}: no pool requested, expected {}", case.k, case.cores, eff)), traces);
        }
        let kind = match &a.result {
            Ok(_) => "ok",
            Err(ErrKind::ThreadOverflow) => "overflow",
            Err(ErrKind::ThreadSpawn) => "spawn",
            Err(ErrKind::Other(_)) => "other",
        };
        let ok_kind = match want {
            "ok" => kind == "ok",
            "overflow" => kind == "overflow",
            "spawn-injected" => kind == "spawn",
            _ => kind == "spawn" || kind == "overflow",
        };
        if !ok_kind {
            let detail = match &a.result {
                Err(ErrKind::Other(e)) => e.clone(),
                _ => String::new(),
            };
            return finish(
                m,
                h,
                viol("wrong-result-kind", sig, format!("num_threads={} cores={:?} fault={}: got {kind} {detail}, expected {want}", case.k, case.cores, case.fail_build)),
                traces,
            );
        }
        let well_formed = |s: &crate::solve::Solved| -> Result<(), String> {
            check_profile(&case.game, &s.profile)?;
            for p in 0..2 {
                let b = s.bounds[p];
                if b.is_nan() || b < 0.0 {
                    return Err(format!("player {} bound is {b}", p + 1));
                }
                if b.is_infinite() != (case.t == 0) {
                    return Err(format!("player {} bound is {b} after a budget of {} iterations", p + 1, case.t));
                }
            }
            if s.total_bound.to_bits() != s.bounds[0].max(s.bounds[1]).to_bits() {
                return Err(format!("total bound {} is not the larger of {:?}", s.total_bound, s.bounds));
            }
            Ok(())
        };
        if let Ok(s) = &a.result {
            if let Err(e) = well_formed(s) {
                return finish(m, h, viol("malformed-result", sig, e), traces);
            }
        }
        if let Some(b) = b {
            b.hash_into(&mut h);
            m.add(if fault { "probe_retry_after_fault" } else { "probe_second_call_on_the_same_thread" }, 1);
            let what = if fault { "retry after an injected pool-build failure" } else { "a second call on the same thread" };
            // recovery: the retry must be what a fault-free call gives
            let (want2, _) = expected_kind(case.k, case.cores, false);
            match &b.result {
                Ok(s) => {
                    if want2 != "ok" {
                        return finish(m, h, viol("wrong-result-kind", sig, format!("{what} returned Ok, expected {want2}")), traces);
                    }
                    if let Err(e) = well_formed(s) {
                        return finish(m, h, viol("malformed-result", sig, format!("{what}: {e}")), traces);
                    }
                    // compare with a single-threaded run (tolerances + conditioning as in C06/C07)
                    let mut c1 = cfg.clone();
                    c1.k = 1;
                    c1.cores = Cores::Real;
                    c1.fail_build = false;
                    let game = case.game.build().expect("accepted before");
                    let base = observed_solve(&game, &c1);
                    if let Ok(bs) = &base.result {
                        let d = profile_diff(&bs.profile, &s.profile).unwrap_or(f64::INFINITY);
                        let bt = bound_tol(st.d(), st.n());
                        let db = (0..2).map(|p| if bs.bounds[p].is_finite() && s.bounds[p].is_finite() { (bs.bounds[p] - s.bounds[p]).abs() } else { 0.0 }).fold(0.0, f64::max);
                        if (d > PROB_TOL || db > bt) && case.thresh.is_nan() == false {
                            let ill = std::panic::catch_unwind(std::panic::AssertUnwindSafe(|| cond::ill_conditioned(&case.game, &game, &c1, bs, PROB_TOL))).unwrap_or(Some("panicked"));
                            if ill.is_none() && edge == "none" {
                                return finish(m, h, viol(if fault { "retry-after-fault-differs" } else { "second-call-differs" }, sig, format!("{what} differs from a fault-free first call by {d:.3e}")), traces);
                            }
                        }
                    }
                }
                Err(e) => {
                    if want2 == "ok" {
                        return finish(m, h, viol(if fault { "no-progress-after-fault" } else { "second-call-failed" }, sig, format!("{what} returned {e:?}")), traces);
                    }
                }
            }
        }
        finish(m, h, Verdict::Pass, traces)
    }

    fn case_to_json(&self, c: &LibCase) -> Value {
        c.to_json()
    }
    fn case_from_json(&self, v: &Value) -> Result<LibCase, String> {
        LibCase::from_json(v)
    }
    fn summary(&self, c: &LibCase) -> Value {
        c.summary()
    }
    fn with_replay(&self, c: &LibCase, traces: &[Trace]) -> LibCase {
        let mut n = c.clone();
        if let Some(t) = traces.first() {
            n.sched = SchedSpec::replay(t.clone());
        }
        n
    }
    fn with_sched_seed(&self, c: &LibCase, seed: Option<u64>) -> LibCase {
        let mut n = c.clone();
        n.sched = match seed {
            None => SchedSpec::nopreempt(),
            Some(s) => SchedSpec::random(s),
        };
        n
    }
    fn shrink(&self, c: &LibCase) -> Vec<LibCase> {
        // keep the edge marker truthful: tree shrinks are only offered for ordinary trees
        let mut v = shrink_lib_case(c);
        if c.extra["edge"].as_str().unwrap_or("none") != "none" {
            v.retain(|n| n.game == c.game);
        }
        v
    }

    fn rule(&self) -> String {
        "one run = one seeded case from the full configuration product (generated game incl. integer/tied payoffs, payoff magnitudes 1e-300..1e250, chance weights scaled by 1e-300..8e307, lottery branches and contract-edge trees x method x RegretParams::new tuples over {+-inf,0,+-0.5,+-1.5,2,+-1e3} and log-uniform exponents in +-[0.1,1000] / presets / None x T incl. 0 and u64::MAX (with threshold +inf) x thresholds {-1,0,NaN,+inf,..} x num_threads in {0,1,2..16,4096,4097,65535,usize::MAX/3,+1,usize::MAX} x core-count override {unknown,1,2,16,64} x injected pool-build failure x scheduler policy x stub coins), executed as one simulated execution; after an injected failure the same call is retried with the fault cleared. Non-trivial: a fault actually fired (pool build failure, too many threads, core-count override) or >= 2 simulated workers interleaved with >= 1 preemption; distinct = distinct (configuration, scheduler-decision sequence) hashes".into()
    }

    fn assumptions(&self) -> Vec<String> {
        vec![
            "pool sizes above 4096 fail to build in the stand-in (what the real pool does in this sandbox when the kernel refuses more stacks); the branch where 65535 threads really spawn is not reachable here (DESIGN 10)".into(),
            "allocation failure is not modelled (aborts the process)".into(),
            "hang detection is a step budget on decision-node visits (64*(T+1)*2*(nodes+1)*K) plus shuttle's deadlock detector; no wall clock is consulted".into(),
        ]
    }

    fn extra_evidence(&self, _agg: &crate::driver::Aggregate) -> Value {
        json!({"fault_kinds": ["pool_build_fail", "pool_too_many_threads", "cores_unknown", "cores_override", "worker_starved (PCT)", "oversubscribed", "stub buggify coins"]})
    }
}
