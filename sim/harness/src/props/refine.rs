//! C08: the solvers compute the documented (discounted) CFR iterates — refinement against the
//! independent reference model under pinned draws, with 1..3 simulated threads.
use crate::common::*;
use crate::cond;
use crate::driver::{Aggregate, Prop};
use crate::gen;
use crate::lib_case_boilerplate;
use crate::model::profile_diff;
use crate::props::threads::{random_params, rayon_metrics, PROB_TOL};
use crate::refmodel::{reference, RefCfg};
use crate::rng::{Fnv, Rng};
use crate::sched::{simulate, SchedSpec};
use crate::shrink::shrink_lib_case;
use crate::solve::{observed_solve, step_budget, SolveCfg, SolveOut};
use cfr_verif_seam::{Cores, Draw, KIND_CHANCE, KIND_PLAYER};
use serde_json::{json, Value};
use std::collections::BTreeMap;
use std::sync::Arc;

pub struct Refinement;

/// the hooks register sampling sites in creation order; the reference derives its keys from
/// the library's infoset indices. If a refactoring changes that order the comparison would be
/// meaningless — detected here and reported as a harness error, never as a verdict.
pub fn check_registration(out: &SolveOut, dump: &cfr_verif_seam::Dump, method: Method) -> Result<(), String> {
    match method {
        Method::Full => Ok(()),
        Method::Sampled | Method::External => {
            let reg: Vec<&Vec<f64>> = out.seam.chance.iter().map(|(p, _)| p).collect();
            if reg.len() != dump.chance_probs.len() || reg.iter().zip(&dump.chance_probs).any(|(a, b)| *a != b) {
                return Err("hook H3 registration order no longer matches the chance infoset order of the dump".into());
            }
            if method == Method::External {
                let want: Vec<usize> = dump.num_actions[0].iter().chain(dump.num_actions[1].iter()).copied().collect();
                let got: Vec<usize> = out.seam.player.iter().map(|(n, _)| *n).collect();
                if want != got {
                    return Err("hook H4 registration order no longer matches the player infoset order of the dump".into());
                }
            }
            Ok(())
        }
    }
}

/// compare the library's draw log with the reference's; Err(message) on a mismatch
pub fn compare_draws(lib: &[Draw], reference: &[Draw]) -> Result<(), String> {
    let key = |d: &Draw| (d.kind, d.vid, d.pass);
    let lm: BTreeMap<_, &Draw> = lib.iter().map(|d| (key(d), d)).collect();
    let rm: BTreeMap<_, &Draw> = reference.iter().map(|d| (key(d), d)).collect();
    for (k, r) in &rm {
        match lm.get(k) {
            None => return Err(format!("no library draw at kind={} infoset={} pass={} (the reference draws there)", k.0, k.1, k.2)),
            Some(l) => {
                if l.weights.len() != r.weights.len() || l.weights.iter().zip(&r.weights).any(|(a, b)| (a - b).abs() > 1e-9) {
                    return Err(format!("weights presented at kind={} infoset={} pass={}: library {:?}, reference {:?}", k.0, k.1, k.2, l.weights, r.weights));
                }
                if l.result != r.result {
                    return Err(format!("draw at kind={} infoset={} pass={}: library took {}, reference {}", k.0, k.1, k.2, l.result, r.result));
                }
            }
        }
    }
    for k in lm.keys() {
        if !rm.contains_key(k) {
            return Err(format!("library draws at kind={} infoset={} pass={} where the documented algorithm does not", k.0, k.1, k.2));
        }
    }
    Ok(())
}

impl Prop for Refinement {
    type Case = LibCase;

    fn id(&self) -> &'static str {
        "C08"
    }

    fn runs(&self, tier: Tier) -> u64 {
        match tier {
            Tier::Quick => 400_000,
            Tier::Thorough => 8_000_000,
        }
    }

    fn gen(&self, r: &mut Rng, _tier: Tier, _idx: u64) -> LibCase {
        let shapes = ["mixed", "degenerate", "poker", "simultaneous", "tiny", "chain", "lopsided", "bushy"];
        let (game, shape) = gen::game_with(r, &shapes, 1, |s| s.max_nodes = s.max_nodes.min(150));
        let t = match r.below(10) {
            0 => 0,
            1..=5 => r.usize_in(1, 8) as u64,
            _ => r.usize_in(9, 50) as u64,
        };
        let mut k = *r.pick(&[1usize, 1, 1, 2, 3]);
        // a few very long runs on tiny games (whatever only shows after tens of thousands of
        // iterations: rescaled accumulators, wrapped counters, weights that underflow)
        let (game, shape, t) = if r.coin(0.0012) {
            k = 1;
            let (g, s) = gen::game(r, &["tiny"], 1);
            (g, s, 20_000 + r.below(130_000))
        } else {
            (game, shape, t)
        };
        LibCase {
            game,
            shape: shape.to_string(),
            method: *r.pick(&Method::ALL),
            params: random_params(r),
            t,
            thresh: 0.0,
            k,
            cores: Cores::Real,
            sampling_seed: r.next(),
            fail_build: false,
            buggify: r.coin(0.8),
            sched: SchedSpec::swarm(r),
            extra: Value::Null,
        }
    }

    fn run(&self, case: &LibCase) -> RunOut {
        let mut m = Metrics::default();
        m.game_hash = case.game.hash();
        let st = case.game.stats();
        let mut h = Fnv::default();
        let mut cfg = SolveCfg::new(case.method, case.params.clone(), case.t, 0.0, case.k, case.sampling_seed);
        cfg.buggify = case.buggify;
        cfg.record_draws = true;
        cfg.step_budget = step_budget(st.nodes, case.t, case.k);
        let model = Arc::new(case.game.clone());
        let c1 = cfg.clone();
        let sim = simulate(&case.sched, move || -> Result<SolveOut, String> {
            let game = model.build().map_err(|e| format!("{e:?}"))?;
            Ok(observed_solve(&game, &c1))
        });
        m.add("executions", 1);
        m.add("sched_steps", sim.sched.steps);
        m.add("sched_preemptions", sim.sched.preemptions);
        m.interleavings.push(sim.sched.trace.hash());
        h.u64(sim.sched.trace.hash());
        let traces = vec![sim.sched.trace.clone()];
        let out = match sim.value {
            Err(f) => return finish(m, h, viol(f.class(), "", f.message().lines().next().unwrap_or("").to_string()), traces),
            Ok(Err(_)) => return finish(m, h, Verdict::Skip("game-rejected"), traces),
            Ok(Ok(o)) => o,
        };
        out.hash_into(&mut h);
        rayon_metrics(&mut m, &out.rayon);
        let s = match &out.result {
            Ok(s) => s,
            Err(e) => return finish(m, h, viol("solve-error", "", format!("{e:?}")), traces),
        };
        let game = case.game.build().expect("accepted before");
        let dump = game.verif_dump();
        if let Err(e) = check_registration(&out, &dump, case.method) {
            return finish(m, h, Verdict::Harness(e), traces);
        }
        let tree = match cond::compile_for(&case.game, &game) {
            Ok(t) => t,
            Err(e) => return finish(m, h, viol("library-tree-differs-from-model", "", e), traces),
        };
        let r = reference(&tree, &RefCfg { method: case.method, params: case.params.documented(), t: case.t, thresh: 0.0, seed: case.sampling_seed, tie: cond::tie_policy() });
        m.add("probe_budget_of_20000_or_more_iterations", (case.t >= 20_000) as u64);
        let is_preset = !matches!(case.params, ParamSpec::Custom(_));
        m.add("runs_with_preset_or_default_params", is_preset as u64);
        if let Some(why) = r.ill {
            m.add(why, 1);
            m.add("ill_conditioned_skipped_with_preset_or_default_params", is_preset as u64);
            m.add("ill_conditioned_skipped", 1);
            return finish(m, h, Verdict::Skip("ill-conditioned"), traces);
        }
        m.add("draws_compared", r.draws.len() as u64);
        if !r.draws.is_empty() || case.k > 1 {
            m.nontrivial_key = Some(case.config_hash() ^ traces[0].hash());
        }
        let judge = |m: &mut Metrics, class: &str, msg: String| -> Verdict {
            // last line of defence against a false alarm: the library's own sensitivity
            let ill = std::panic::catch_unwind(std::panic::AssertUnwindSafe(|| {
                let mut c1 = cfg.clone();
                c1.k = 1;
                let base = observed_solve(&game, &c1);
                match &base.result {
                    Ok(b) => cond::ill_conditioned(&case.game, &game, &c1, b, PROB_TOL),
                    Err(_) => None,
                }
            }))
            .unwrap_or(None);
            if ill.is_some() {
                m.add("ill_conditioned_skipped", 1);
                Verdict::Skip("ill-conditioned")
            } else {
                viol(class, "", msg)
            }
        };
        if let Err(e) = compare_draws(&out.seam.draws, &r.draws) {
            let v = judge(&mut m, "draws-differ-from-reference", format!("{} {} T={} K={}: {e}", case.method.name(), case.params.name(), case.t, case.k));
            return finish(m, h, v, traces);
        }
        let d = match profile_diff(&r.profile, &s.profile) {
            Ok(d) => d,
            Err(e) => return finish(m, h, viol("diverges-from-reference", "infosets", e), traces),
        };
        // bounds: reported, not judged (DESIGN 6 C08)
        let mut bdev = 0.0f64;
        for p in 0..2 {
            if r.bounds[p].is_finite() && s.bounds[p].is_finite() {
                bdev = bdev.max((r.bounds[p] - s.bounds[p]).abs() / st.d().max(1e-300));
            } else if r.bounds[p].is_finite() != s.bounds[p].is_finite() {
                bdev = f64::INFINITY;
            }
        }
        m.max("bound_vs_reference_max_dev_over_D", bdev);
        if d > PROB_TOL {
            let v = judge(
                &mut m,
                "diverges-from-reference",
                format!("{} {} T={} K={}: strategies differ from the documented iterates by {d:.3e}", case.method.name(), case.params.name(), case.t, case.k),
            );
            return finish(m, h, v, traces);
        }
        m.max("max_strategy_deviation_vs_reference", d);
        finish(m, h, Verdict::Pass, traces)
    }

    lib_case_boilerplate!();

    fn shrink(&self, c: &LibCase) -> Vec<LibCase> {
        let mut v = shrink_lib_case(c);
        // the parameter set is usually what matters; offer vanilla only as one candidate (kept by shrink_lib_case)
        v.retain(|n| n.thresh == 0.0);
        if c.k == 2 {
            let mut n = c.clone();
            n.k = 1;
            v.insert(0, n);
        }
        v
    }

    fn rule(&self) -> String {
        "one run = one seeded case (generated game x method x parameter tuple over presets / None / RegretParams::new with exponents in {+-inf,0,+-0.5,+-1.5,2,+-1e3} or log-uniform in +-[0.1,1000] x T in 0..50 x K in {1,2,3} x sampling seed x scheduler policy): the library solves inside one simulated execution with its draws pinned by the keyed RNG and logged; the independent reference model then computes the documented iterates with the same keys. The reference is computed in two legal orders of operations (a run on which they disagree is skipped as summation-order-sensitive) and its alignment with the library's compact tree includes the partition of chance nodes into infosets. Compared: the complete draw log (site, pass, weights presented, index) and the returned strategies (1e-7). Non-trivial: at least one draw was compared or K > 1; distinct = distinct (configuration, scheduler-decision sequence) hashes".into()
    }

    fn assumptions(&self) -> Vec<String> {
        vec![
            "the reference model is independent in code (own tree, own recursion), not in authorship".into(),
            "how exact ties are broken in the arg-max / arg-min fallback is learned from the build under test (undocumented); near ties and near-zero regrets are skipped as ill-conditioned (DESIGN 5.2, 5.3)".into(),
            "bounds are compared with the reference but only reported: the documentation does not fix the bound's formula for discounted parameters and C02 refutes rescalings".into(),
        ]
    }

    fn extra_evidence(&self, agg: &Aggregate) -> Value {
        let tie = cond::tie_policy();
        json!({"tie_policy_learned": format!("{tie:?}"), "ill_conditioned_skipped": agg.skips.get("ill-conditioned").copied().unwrap_or(0), "tolerance_probability_abs": PROB_TOL})
    }
}

pub fn unused(_: &[u8; 0]) -> (u8, u8) {
    (KIND_CHANCE, KIND_PLAYER)
}
