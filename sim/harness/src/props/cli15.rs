//! C15: the output of the binary is faithful to the game in the input file. The real
//! `main()` runs inside a simulated execution (`simcli`, one process per run).
use crate::cli::write::{to_efg, to_json_dsl, EfgStyle, EfgWritten, JsonStyle};
use crate::cli::*;
use crate::common::*;
use crate::driver::{Aggregate, Prop};
use crate::eval;
use crate::gen;
use crate::model::{check_profile, MNode};
use crate::rng::{Fnv, Rng};
use crate::sched::Trace;
use crate::shrink::shrink_tree;
use cfr_verif_seam::Cores;
use serde_json::{json, Value};
use std::collections::BTreeMap;

#[derive(Clone, Debug)]
pub struct CliCase {
    pub game: MNode,
    pub shape: String,
    pub format: Format,
    pub style_seed: u64,
    /// false: plain style (used by the minimiser)
    pub fancy: bool,
    pub route: Route,
    pub opts: Opts,
    pub env: SimEnv,
    pub extra: Value,
}

pub struct Written {
    pub bytes: Vec<u8>,
    pub names: [BTreeMap<String, String>; 2],
    pub constant: f64,
    pub slack: f64,
}

impl CliCase {
    pub fn write(&self) -> Written {
        let mut r = Rng::new(self.style_seed);
        match self.format {
            Format::Json => {
                let st = if self.fancy { JsonStyle::random(&mut r) } else { JsonStyle::plain() };
                Written { bytes: to_json_dsl(&self.game, &mut r, &st).into_bytes(), names: Default::default(), constant: 0.0, slack: 0.0 }
            }
            Format::Gambit => {
                let st = if self.fancy { EfgStyle::random(&mut r) } else { EfgStyle::plain() };
                let st = if self.game.stats().d() > 1e6 { st.exact_zero_sum() } else { st };
                let EfgWritten { text, names, constant, slack } = to_efg(&self.game, &mut r, &st);
                Written { bytes: text.into_bytes(), names, constant, slack }
            }
        }
    }

    pub fn to_json(&self) -> Value {
        let w = self.write();
        json!({
            "game": self.game.to_json(),
            "shape": self.shape,
            "format": self.format.name(),
            "style_seed": self.style_seed.to_string(),
            "fancy": self.fancy,
            "route": self.route.to_json(),
            "opts": self.opts.to_json(),
            "env": self.env.to_json(),
            "extra": self.extra,
            "file_text_for_the_reader": String::from_utf8_lossy(&w.bytes),
            "command_line": format!("cfr {}", self.opts.args().join(" ")),
        })
    }

    pub fn from_json(v: &Value) -> Result<CliCase, String> {
        Ok(CliCase {
            game: MNode::from_json(&v["game"])?,
            shape: v["shape"].as_str().unwrap_or("").to_string(),
            format: if v["format"].as_str() == Some("gambit") { Format::Gambit } else { Format::Json },
            style_seed: v["style_seed"].as_str().and_then(|s| s.parse().ok()).ok_or("style_seed")?,
            fancy: v["fancy"].as_bool().unwrap_or(true),
            route: Route::from_json(&v["route"]),
            opts: Opts::from_json(&v["opts"])?,
            env: SimEnv::from_json(&v["env"])?,
            extra: v["extra"].clone(),
        })
    }

    pub fn summary(&self) -> Value {
        let st = self.game.stats();
        json!({
            "shape": self.shape, "nodes": st.nodes, "infosets": st.infosets, "format": self.format.name(),
            "route": self.route.to_json(), "args": self.opts.args(), "sched": self.env.policy, "cores": cores_json(&self.env.cores),
            "game_hash": format!("{:016x}", self.game.hash()), "extra": self.extra,
        })
    }

    pub fn config_hash(&self) -> u64 {
        let mut h = Fnv::default();
        h.u64(self.game.hash());
        h.str(self.format.name());
        h.u64(self.style_seed);
        h.str(&self.route.to_json().to_string());
        h.str(&self.opts.to_json().to_string());
        h.str(&self.env.to_json().to_string());
        h.str(&self.extra.to_string());
        h.finish()
    }
}

pub fn random_opts(r: &mut Rng, small_t: bool) -> Opts {
    let method = match r.below(4) {
        0 => None,
        _ => Some(*r.pick(&Method::ALL)),
    };
    let discount = if r.coin(0.25) { None } else { Some(r.pick(&DISCOUNTS).0.to_string()) };
    let t = if r.coin(0.15) { None } else { Some(*r.pick(if small_t { &[1u64, 2, 3, 5, 10, 30][..] } else { &[1u64, 2, 5, 10, 50, 200][..] })) };
    let rr = match r.below(6) {
        0 => Some(0.5),
        1 => Some(0.05),
        2 => Some(0.0),
        _ => None,
    };
    let p = match r.below(8) {
        0 => None,
        1 => Some(0),
        2..=4 => Some(1),
        5 => Some(2),
        6 => Some(3),
        _ => Some(*r.pick(&[4usize, 8])),
    };
    Opts { method, discount, t, r: rr, p, c: None }
}

pub fn shrink_cli_case(c: &CliCase) -> Vec<CliCase> {
    let mut res = vec![];
    let mut push = |f: &dyn Fn(&mut CliCase)| {
        let mut n = c.clone();
        f(&mut n);
        res.push(n);
    };
    if c.fancy {
        push(&|n| n.fancy = false);
    }
    if c.route.stdin || c.route.out_file || c.route.flag.is_some() {
        push(&|n| {
            n.route = Route { stdin: false, ext: if n.format == Format::Json { "json".into() } else { "efg".into() }, flag: None, out_file: false, stale_out: false, in_place: false, dev_stdin: false }
        });
    }
    if c.opts.p != Some(1) {
        push(&|n| n.opts.p = Some(1));
    }
    if c.opts.method != Some(Method::Full) {
        push(&|n| n.opts.method = Some(Method::Full));
    }
    if c.opts.discount.as_deref() != Some("vanilla") {
        push(&|n| n.opts.discount = Some("vanilla".into()));
    }
    if c.opts.r.is_some() {
        push(&|n| n.opts.r = None);
    }
    if c.opts.c.is_some() {
        push(&|n| n.opts.c = None);
    }
    match c.opts.t {
        Some(t) if t > 1 => {
            push(&|n| n.opts.t = Some(1));
            push(&|n| n.opts.t = Some(t / 2));
        }
        None => push(&|n| n.opts.t = Some(10)),
        _ => {}
    }
    if c.env.policy != "nopreempt" {
        push(&|n| n.env.policy = "nopreempt".into());
    }
    if c.format == Format::Gambit {
        // (the route must keep describing the content: a JSON text under a Gambit flag or
        // extension would be a different, invalid input)
        push(&|n| {
            n.format = Format::Json;
            if n.route.ext == "efg" {
                n.route.ext = "json".into();
            }
            if n.route.flag.as_deref() == Some("gambit") {
                n.route.flag = Some("json".into());
            }
        });
    }
    for g in shrink_tree(&c.game) {
        let mut n = c.clone();
        n.game = g;
        res.push(n);
    }
    res
}

#[macro_export]
macro_rules! cli_case_boilerplate {
    () => {
        fn case_to_json(&self, c: &CliCase) -> serde_json::Value {
            c.to_json()
        }
        fn case_from_json(&self, v: &serde_json::Value) -> Result<CliCase, String> {
            CliCase::from_json(v)
        }
        fn summary(&self, c: &CliCase) -> serde_json::Value {
            c.summary()
        }
        // the process is re-run with the same seeds, which is deterministic
        fn with_replay(&self, c: &CliCase, _traces: &[$crate::sched::Trace]) -> CliCase {
            c.clone()
        }
        fn with_sched_seed(&self, c: &CliCase, seed: Option<u64>) -> CliCase {
            let mut n = c.clone();
            match seed {
                None => n.env.policy = "nopreempt".into(),
                Some(s) => {
                    n.env.policy = "random".into();
                    n.env.sched_seed = s;
                }
            }
            n
        }
        fn components(&self) -> serde_json::Value {
            serde_json::json!({
                "real": ["src/main.rs incl. clap argument parsing, input routing, clip step and JSON output", "src/json.rs, src/gambit.rs, src/auto.rs, gambit-parser, serde_json", "src/lib.rs, src/solve/*.rs, src/regret.rs"],
                "stub": ["rayon / AtomicF64 / Mutex stand-ins", "thread_rng entropy (keyed SplitMix64)", "available_parallelism (override)"],
                "outside the simulator": ["process start, the pipe / file that carries the input bytes (content decided by the driver)"],
            })
        }
    };
}

/// Checks shared by C15 and the accepted branch of C17: one complete result object with valid
/// profiles whose printed numbers equal an independent evaluation of the printed strategies.
pub fn faithful(model_cli_names: &MNode, printed: &Printed, constant: f64, slack: f64) -> Result<(), (String, String)> {
    if let Err(e) = check_profile(model_cli_names, &printed.profile) {
        return Err(("cli-invalid-profile".into(), e));
    }
    let info = eval::evaluate(model_cli_names, &printed.profile);
    // tolerance relative to the reach-weighted magnitude of the game (not to its payoff range:
    // a huge payoff behind a tiny probability contributes order one)
    let d = model_cli_names.mag().max(1.0);
    let tol = 1e-9 * d;
    let off = constant / 2.0;
    let near = |a: f64, b: f64, t: f64| (a - b).abs() <= t;
    if !near(printed.util[0], info.util + off, tol) {
        return Err(("cli-wrong-number:player_one_utility".into(), format!("printed {} but the printed strategies give player one {} on the game as written", printed.util[0], info.util + off)));
    }
    if !near(printed.util[1], -info.util + off, tol + 2.0 * slack) {
        return Err(("cli-wrong-number:player_two_utility".into(), format!("printed {} but the printed strategies give player two {} on the game as written (constant sum {constant})", printed.util[1], -info.util + off)));
    }
    if !near(printed.util[0] + printed.util[1], constant, tol + 2.0 * slack) {
        return Err(("cli-wrong-number:utility-sum".into(), format!("utilities {} + {} do not add up to the file's constant {constant}", printed.util[0], printed.util[1])));
    }
    for p in 0..2 {
        if !near(printed.regrets[p], info.regret[p], tol + 2.0 * slack) {
            return Err((format!("cli-wrong-number:player_{}_regret", if p == 0 { "one" } else { "two" }), format!("printed {} but the best response against the printed strategies gains {}", printed.regrets[p], info.regret[p])));
        }
    }
    if printed.regret.to_bits() != printed.regrets[0].max(printed.regrets[1]).to_bits() {
        return Err(("cli-wrong-number:regret".into(), format!("total {} is not the larger of {:?}", printed.regret, printed.regrets)));
    }
    Ok(())
}

pub fn result_bytes<'a>(route: &Route, out: &'a ProcOut) -> Result<&'a [u8], (String, String)> {
    if route.out_file {
        if !out.stdout.is_empty() {
            return Err(("cli-stdout-not-empty-with-output-file".into(), String::from_utf8_lossy(&out.stdout).chars().take(200).collect()));
        }
        match &out.out_file {
            Some(b) => Ok(b),
            None => Err(("cli-no-output-file".into(), "the --output file was not written".into())),
        }
    } else {
        Ok(&out.stdout)
    }
}

pub fn proc_metrics(m: &mut Metrics, out: &ProcOut) {
    m.add("processes", 1);
    m.add("fault_output_path_preexisting_with_longer_content", out.stale_out as u64);
    m.add("fault_output_path_is_the_input_file", out.in_place as u64);
    m.add("fault_input_path_is_not_a_regular_file", out.dev_stdin as u64);
    if let Some(r) = &out.report {
        m.add("sched_steps", r["sched_steps"].as_u64().unwrap_or(0));
        m.add("sched_preemptions", r["sched_preemptions"].as_u64().unwrap_or(0));
        m.add("draws_made", r["draws"].as_u64().unwrap_or(0));
        if let Some(h) = r["trace_hash"].as_str().and_then(|s| u64::from_str_radix(s, 16).ok()) {
            m.interleavings.push(h);
        }
        if r["max_workers"].as_u64().unwrap_or(0) >= 2 && r["sched_preemptions"].as_u64().unwrap_or(0) >= 1 {
            m.add("probe_two_or_more_workers_interleaved", 1);
        }
    }
}

pub struct CliFaithful;

impl Prop for CliFaithful {
    type Case = CliCase;

    fn id(&self) -> &'static str {
        "C15"
    }

    fn runs(&self, tier: Tier) -> u64 {
        match tier {
            Tier::Quick => 30_000,
            Tier::Thorough => 600_000,
        }
    }

    fn gen(&self, r: &mut Rng, _tier: Tier, _idx: u64) -> CliCase {
        let (game, shape) = gen::cli_game(r, 0, 120);
        let format = if r.coin(0.5) { Format::Json } else { Format::Gambit };
        let mut opts = random_opts(r, false);
        opts.c = match r.below(8) {
            0 => Some(1e-3),
            1 => Some(0.05),
            2 => Some(0.3),
            3 => Some(0.6),
            4 => Some(1.0),
            5 => Some(0.0),
            _ => None,
        };
        let mut env = SimEnv::random(r);
        if opts.p == Some(0) || opts.p.is_none() {
            env.cores = *r.pick(&[Cores::Unknown, Cores::Count(1), Cores::Count(2), Cores::Count(4)]);
        }
        CliCase { game, shape: shape.to_string(), format, style_seed: r.next(), fancy: true, route: Route::random(r, format), opts, env, extra: Value::Null }
    }

    fn run(&self, case: &CliCase) -> RunOut {
        let mut m = Metrics::default();
        m.game_hash = case.game.hash();
        let mut h = Fnv::default();
        let w = case.write();
        h.u64(hash_bytes(&w.bytes));
        // reader faithfulness as a structural statement (the binary's own reader, in-process):
        // the parsed compact game IS the game the file was written from
        {
            let fmt = case.format;
            let parsed = std::panic::catch_unwind(std::panic::AssertUnwindSafe(|| {
                let mut rd: &[u8] = &w.bytes;
                if fmt == Format::Json {
                    crate::real_main::verif::json_from_reader(&mut rd)
                } else {
                    crate::real_main::verif::gambit_from_reader(&mut rd)
                }
            }));
            if let Ok((g, _)) = parsed {
                m.add("reader_structure_checks", 1);
                let model = rename_model(&case.game, &w.names);
                if let Err(e) = crate::cli::structure::same_game(&model, &g, 2.0 * w.slack) {
                    return finish(m, h, viol("cli-reader-structure", "", format!("the {} reader built a different game from the file: {e}", fmt.name())), vec![]);
                }
            }
        }
        let out = run_simcli(&w.bytes, &case.route, &case.opts, &case.env, &[]);
        proc_metrics(&mut m, &out);
        h.u64(out.status.unwrap_or(-1) as u64);
        h.u64(hash_output(&out.stdout));
        let traces: Vec<Trace> = vec![];
        m.nontrivial_key = Some(case.config_hash());
        m.add(if case.format == Format::Json { "files_json" } else { "files_gambit" }, 1);
        if w.constant != 0.0 {
            m.add("probe_constant_sum_nonzero", 1);
        }
        for sp in case.game.shape_probes() {
            m.add(sp, 1);
        }
        if case.game.stats().d() > 1e6 {
            m.add("probe_lottery_game_tiny_probability_huge_payoff", 1);
        }
        if w.slack != 0.0 {
            m.add("probe_constant_sum_error_within_tolerance", 1);
        }
        if w.names.iter().any(|n| n.iter().any(|(a, b)| a != b)) {
            m.add("probe_unnamed_gambit_infosets", 1);
        }
        if case.format == Format::Gambit {
            // interior nodes carrying an outcome: payoffs written at the node / by number only
            let text = String::from_utf8_lossy(&w.bytes);
            let (mut inline, mut by_number) = (0u64, 0u64);
            for l in text.lines().filter(|l| l.starts_with("p ") || l.starts_with("c ")) {
                if let Some(i) = l.rfind('}') {
                    let tail = l[i + 1..].trim();
                    if tail.is_empty() {
                        inline += 1;
                    } else if tail != "0" {
                        by_number += 1;
                    }
                }
            }
            m.add("probe_gambit_interior_payoffs_files", (inline + by_number > 0) as u64);
            m.add("probe_gambit_interior_outcome_by_number_only_files", (by_number > 0) as u64);
        }
        if out.status != Some(0) {
            let first = out.stderr.lines().find(|l| l.contains("panicked at")).or_else(|| out.stderr.lines().find(|l| l.contains("panicked") || l.contains("error"))).unwrap_or(out.stderr.lines().next().unwrap_or("")).to_string();
            let line2 = out.stderr.lines().skip_while(|l| !l.contains("panicked at")).nth(1).unwrap_or("").to_string();
            return finish(m, h, viol("cli-nonzero-exit", "", format!("exit status {:?} on a valid {} file: {first} {line2}", out.status, case.format.name())), traces);
        }
        let bytes = match result_bytes(&case.route, &out) {
            Ok(b) => b,
            Err((c, e)) => return finish(m, h, viol(c, "", e), traces),
        };
        let printed = match parse_printed(bytes) {
            Ok(p) => p,
            Err(e) => return finish(m, h, viol("cli-invalid-output", "", e), traces),
        };
        let model = rename_model(&case.game, &w.names);
        if let Err((class, msg)) = faithful(&model, &printed, w.constant, w.slack) {
            return finish(m, h, viol(class, "", format!("{} | args: {}", msg, case.opts.args().join(" "))), traces);
        }
        finish(m, h, Verdict::Pass, traces)
    }

    cli_case_boilerplate!();

    fn shrink(&self, c: &CliCase) -> Vec<CliCase> {
        shrink_cli_case(c)
    }

    fn schedule_dependent(&self) -> bool {
        false
    }

    fn rule(&self) -> String {
        "one run = one process of `simcli` (the repository's real main() inside one simulated execution: rayon stand-in, seeded scheduler, keyed sampling, core-count override) on one generated valid game written by the harness's own JSON-DSL / Gambit writer (constant sums != 0, interior payoffs incl. non-zero-sum ones, outcomes shared and referred to by number only before / after their definition, unnamed infosets, names at first occurrence only, chance infosets numbered from 0, rational and decimal probabilities, shuffled action lists, constant-sum error inside the tolerance, leading whitespace, multi-byte / escaped / numeric-looking names, lotteries: probability 1e-17 with payoffs x 1e17) x route (file / stdin, extension incl. a misleading one under an explicit format, --input-format, -o incl. a pre-existing longer file) x -m x -d x -t x -r x -p in {absent,0,1,2,3,4,8} x -c in {absent,0,1e-3,0.05,0.3,0.6,1}. Oracle: the compact game built by the binary's own reader is structurally the file's game (tree, payoffs, names, probabilities, partition of chance nodes into infosets); exit 0, exactly one result object, valid profiles over exactly the file's infosets, and every printed number equals an independent evaluation of the PRINTED strategies on the game as written (own payoffs, constant sum; tolerance 1e-9 x the game's reach-weighted magnitude). Every run is non-trivial; distinct = distinct case hashes".into()
    }

    fn assumptions(&self) -> Vec<String> {
        vec![
            "process start and the pipe / file carrying the input are outside the simulator; their content is decided by the driver and the verdict does not depend on their timing".into(),
            "for files whose constant-sum error is inside the documented 0.1 % tolerance, player two's numbers are compared with a tolerance of twice that error".into(),
        ]
    }

    fn extra_evidence(&self, _agg: &Aggregate) -> Value {
        Value::Null
    }
}
