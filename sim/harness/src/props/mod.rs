pub mod regret;
pub mod threads;
pub mod totality;
