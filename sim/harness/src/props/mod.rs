pub mod cli15;
pub mod cli16;
pub mod early;
pub mod refine;
pub mod regret;
pub mod sampling;
pub mod threads;
pub mod totality;
