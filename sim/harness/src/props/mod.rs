pub mod threads;
pub mod totality;
