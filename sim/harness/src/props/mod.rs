pub mod threads;
