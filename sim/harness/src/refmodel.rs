//! Executable reference model of the documented algorithms: simultaneous-update
//! (discounted) CFR, optionally chance-sampled, and alternating-update external sampling.
//! Written from the papers and the crate documentation; shares no code with `src/solve`.
//! It also carries the conditioning guard (DESIGN §5.3): next to every cumulative regret
//! R it tracks S, the (equally discounted) sum of magnitudes of everything ever added, so
//! that 1e-16*S is the size of the rounding noise R can carry.
use crate::common::Method;
use crate::model::{MNode, Profile};
use cfr_verif_seam::{keyed, Draw, Dump, DumpNode, KIND_CHANCE, KIND_PLAYER};
use rand_distr::{Distribution, WeightedAliasIndex};
use std::collections::BTreeMap;

#[derive(Clone, Copy, Debug, PartialEq, Eq)]
pub enum Tie {
    First,
    Last,
    /// all exactly tied actions share the probability equally
    Uniform,
    /// unknown behaviour: exact ties are treated as ill-conditioned
    Unknown,
}

#[derive(Clone, Copy, Debug)]
pub struct TiePolicy {
    pub max: Tie,
    pub min: Tie,
}

#[derive(Debug)]
pub enum RN {
    T(f64),
    C(usize, Vec<RN>),
    P(usize, usize, Vec<RN>),
}

/// The model tree annotated with the library's infoset indices (needed only to give the
/// reference's draws the same keys as the library's).
pub struct RTree {
    pub root: RN,
    /// the reference's own normalisation of the declared weights, per chance infoset
    pub chance_probs: Vec<Vec<f64>>,
    /// what the library registered (used for the alias table so that the table is bit-identical)
    pub lib_chance_probs: Vec<Vec<f64>>,
    pub names: [Vec<String>; 2],
    pub actions: [Vec<Vec<String>>; 2],
    /// single-action infosets of the model (they carry no state; listed at probability one)
    pub singles: [Vec<(String, String)>; 2],
}

pub fn compile(model: &MNode, dump: &Dump, infosets: &[Vec<(&String, &[String])>; 2]) -> Result<RTree, String> {
    let names: [Vec<String>; 2] = [
        infosets[0].iter().map(|(n, _)| (*n).clone()).collect(),
        infosets[1].iter().map(|(n, _)| (*n).clone()).collect(),
    ];
    let actions: [Vec<Vec<String>>; 2] = [
        infosets[0].iter().map(|(_, a)| a.to_vec()).collect(),
        infosets[1].iter().map(|(_, a)| a.to_vec()).collect(),
    ];
    let chance_probs: Vec<Option<Vec<f64>>> = vec![None; dump.chance_probs.len()];
    /// which model chance infoset (a name, or a fresh number for an unnamed node) each library
    /// chance infoset stands for: the two partitions of the chance nodes must be the same
    #[derive(Default)]
    struct Part {
        by_name: BTreeMap<String, usize>,
        by_index: BTreeMap<usize, String>,
        fresh: usize,
    }
    fn walk(
        m: &MNode,
        d: &DumpNode,
        names: &[Vec<String>; 2],
        actions: &[Vec<Vec<String>>; 2],
        cp: &mut (Vec<Option<Vec<f64>>>, Part),
        d_root_probs: &[Vec<f64>],
    ) -> Result<RN, String> {
        fn dump_probs_of(all: &[Vec<f64>], i: usize) -> &[f64] {
            all.get(i).map(|v| v.as_slice()).unwrap_or(&[])
        }
        match m {
            MNode::C { outs, .. } if outs.len() == 1 => walk(&outs[0].2, d, names, actions, cp, d_root_probs),
            MNode::P { acts, .. } if acts.len() == 1 => walk(&acts[0].1, d, names, actions, cp, d_root_probs),
            MNode::T(x) => match d {
                // the Gambit route computes its payoffs with a few more roundings than the model
                DumpNode::Terminal(y) if x.to_bits() == y.to_bits() || (x - y).abs() <= 1e-9 * (1.0 + x.abs()) => Ok(RN::T(*x)),
                _ => Err(format!("model terminal {x} vs library {d:?}")),
            },
            MNode::C { info, outs } => match d {
                DumpNode::Chance { infoset, outcomes } if outcomes.len() == outs.len() => {
                    let key = match info {
                        Some(n) => format!("named:{n}"),
                        None => {
                            cp.1.fresh += 1;
                            format!("unnamed:{}", cp.1.fresh)
                        }
                    };
                    match (cp.1.by_name.get(&key), cp.1.by_index.get(infoset)) {
                        (None, None) => {
                            cp.1.by_name.insert(key.clone(), *infoset);
                            cp.1.by_index.insert(*infoset, key);
                        }
                        (Some(i), Some(k)) if i == infoset && *k == key => {}
                        _ => return Err(format!("chance nodes are partitioned into infosets differently: model chance infoset {info:?} vs library chance infoset {infoset}")),
                    }
                    let probs: Vec<f64> = crate::model::normalised(&outs.iter().map(|(_, w, _)| *w).collect::<Vec<_>>());
                    if *infoset >= cp.0.len() {
                        return Err("chance infoset index out of range".into());
                    }
                    if probs.len() != dump_probs_of(d_root_probs, *infoset).len() || probs.iter().zip(dump_probs_of(d_root_probs, *infoset)).any(|(a, b)| (a - b).abs() > 1e-9) {
                        return Err(format!("chance infoset {infoset}: the model declares probabilities {probs:?}, the library holds {:?}", dump_probs_of(d_root_probs, *infoset)));
                    }
                    match &cp.0[*infoset] {
                        None => cp.0[*infoset] = Some(probs),
                        Some(old) => {
                            if old.len() != probs.len() || old.iter().zip(&probs).any(|(a, b)| (a - b).abs() > 1e-12) {
                                return Err("nodes of one chance infoset declare different weights".into());
                            }
                        }
                    }
                    let kids: Result<Vec<RN>, String> =
                        outs.iter().zip(outcomes).map(|((_, _, c), dc)| walk(c, dc, names, actions, cp, d_root_probs)).collect();
                    Ok(RN::C(*infoset, kids?))
                }
                _ => Err("model chance node vs library node mismatch".into()),
            },
            MNode::P { player, info, acts } => match d {
                DumpNode::Player { player_two, infoset, actions: dacts }
                    if (*player_two as usize) == *player && dacts.len() == acts.len() =>
                {
                    if names[*player].get(*infoset) != Some(info) {
                        return Err(format!("infoset name mismatch at {info}"));
                    }
                    if actions[*player][*infoset].iter().zip(acts).any(|(a, (b, _))| a != b) {
                        return Err(format!("action order mismatch at {info}"));
                    }
                    let kids: Result<Vec<RN>, String> =
                        acts.iter().zip(dacts).map(|((_, c), dc)| walk(c, dc, names, actions, cp, d_root_probs)).collect();
                    Ok(RN::P(*player, *infoset, kids?))
                }
                _ => Err(format!("model decision node {info} vs library node mismatch")),
            },
        }
    }
    let mut state = (chance_probs, Part::default());
    let root = walk(model, &dump.root, &names, &actions, &mut state, &dump.chance_probs)?;
    let chance_probs: Vec<Vec<f64>> = state.0.into_iter().map(|p| p.unwrap_or_default()).collect();
    let mut singles: [Vec<(String, String)>; 2] = Default::default();
    for (p, infos) in model.infosets().iter().enumerate() {
        for (i, acts) in infos {
            if acts.len() == 1 {
                singles[p].push((i.clone(), acts[0].clone()));
            }
        }
    }
    Ok(RTree { root, chance_probs, lib_chance_probs: dump.chance_probs.clone(), names, actions, singles })
}

struct Info {
    n: usize,
    reg: Vec<f64>,
    mag: Vec<f64>,
    cum: Vec<f64>,
    strat: Vec<f64>,
    pass: u64,
    cached: Option<usize>,
    visited: bool,
}

struct CInfo {
    table: Option<WeightedAliasIndex<f64>>,
    pass: u64,
    cached: Option<usize>,
}

#[derive(Clone, Debug)]
pub struct RefCfg {
    pub method: Method,
    /// documented tuple (alpha, beta, gamma, no-positive weight)
    pub params: [f64; 4],
    pub t: u64,
    pub thresh: f64,
    pub seed: u64,
    pub tie: TiePolicy,
}

#[derive(Debug, Default)]
pub struct RefOut {
    pub profile: Profile,
    pub bounds: [f64; 2],
    pub iterations: u64,
    pub ill: Option<&'static str>,
    pub draws: Vec<Draw>,
    /// per-player bounds after every iteration
    pub history: Vec<[f64; 2]>,
    /// smallest relative distance of the stop test to the threshold seen along the run
    pub min_thresh_gap: f64,
}

struct Ref<'a> {
    tree: &'a RTree,
    infos: [Vec<Info>; 2],
    chance: Vec<CInfo>,
    cfg: &'a RefCfg,
    ill: Option<&'static str>,
    draws: Vec<Draw>,
    /// 0: regret += w * (u_a - ev); 1: regret += w * u_a for every action, then -= the weighted
    /// expectation (both are the documented update; they round differently)
    order: u8,
}

fn disc(t: u64, d: f64) -> f64 {
    if d == f64::NEG_INFINITY {
        0.0
    } else if d == f64::INFINITY {
        1.0
    } else if d == 0.0 {
        0.5
    } else {
        let x = (t as f64).powf(d);
        if x.is_infinite() {
            1.0
        } else {
            x / (x + 1.0)
        }
    }
}

const REL_ETA: f64 = 1e-8;

impl Ref<'_> {
    fn flag(&mut self, why: &'static str) {
        if self.ill.is_none() {
            self.ill = Some(why);
        }
    }

    fn regret_match(&mut self, p: usize, i: usize) {
        let w = self.cfg.params[3];
        let tie = self.cfg.tie;
        let info = &mut self.infos[p][i];
        let n = info.n;
        let mut why = None;
        // ---- conditioning guard (DESIGN 5.3) --------------------------------------------
        // eta_a bounds (very generously) the rounding noise R_a can carry under any legal
        // summation order. A regret is FRAGILE if it is within eta of zero although things
        // were added to it (S_a > 0): this includes regrets that are exactly zero only
        // because "x - x" cancelled in this particular order of operations. Exact zeros of
        // untouched / zero-reach actions (S_a = 0) stay exactly zero in every order.
        if info.visited {
            let eta: Vec<f64> = info.mag.iter().map(|s| REL_ETA * s).collect();
            let max_eta = eta.iter().cloned().fold(0.0, f64::max);
            let fragile: Vec<usize> = (0..n).filter(|a| info.mag[*a] > 0.0 && info.reg[*a].abs() < eta[*a]).collect();
            let robust_pos: f64 = (0..n).filter(|a| !fragile.contains(a) && info.reg[*a] > 0.0).map(|a| info.reg[a]).sum();
            if robust_pos > 0.0 {
                // noise that can reach the normalisation: that of the positive and the fragile regrets
                let rel_eta = (0..n).filter(|a| info.reg[*a] > 0.0 || fragile.contains(a)).map(|a| eta[a]).fold(0.0, f64::max);
                // estimated relative error of the normalisation <= 1e-14*S/P; 1e2*eta = 1e-6*S keeps the
                // strategy error below 1e-8, a tenth of the comparison tolerance
                if robust_pos < 1e2 * rel_eta {
                    why = Some("positive-mass-near-zero");
                    if std::env::var("VERIF_DEBUG_ILL").is_ok() {
                        eprintln!("PMNZ params={:?} reg={:?} mag={:?} fragile={:?}", self.cfg.params, info.reg, info.mag, fragile);
                    }
                }
                // otherwise fragile regrets contribute at most a 1e-11 share to THIS strategy; whether
                // they matter downstream (reach exactly 0 versus ~1e-300) is decided by running the
                // reference in a second legal order of operations, see `reference()`
            } else if !fragile.is_empty() {
                // no robust positive regret: the sign of the fragile ones picks the branch.
                // Only one situation is order-independent: the arg-max fallback with a single
                // fragile action and every other action clearly negative (that action is
                // played purely whichever way its sign falls).
                let others_clearly_negative = (0..n).filter(|a| !fragile.contains(a)).all(|a| info.reg[a] < -eta[a] && info.reg[a] < -max_eta);
                if !(w == f64::INFINITY && fragile.len() == 1 && others_clearly_negative) {
                    why = Some("fragile-zero-regret-decides-branch");
                }
            } else if w == f64::INFINITY || w == f64::NEG_INFINITY {
                // fallback on exact values: near ties, and exact ties between touched values
                let ext = if w == f64::INFINITY {
                    info.reg.iter().cloned().fold(f64::NEG_INFINITY, f64::max)
                } else {
                    info.reg.iter().cloned().fold(f64::INFINITY, f64::min)
                };
                let tied: Vec<usize> = (0..n).filter(|a| info.reg[*a] == ext).collect();
                if (0..n).any(|a| info.reg[a] != ext && (info.reg[a] - ext).abs() < max_eta.max(eta[a])) {
                    why = Some("near-tie-in-fallback");
                }
                if tied.len() > 1 && tied.iter().any(|a| info.mag[*a] > 0.0) {
                    why = Some("exact-tie-between-touched-regrets");
                }
            }
        }
        // ---- the documented rule ----------------------------------------------------------
        let pos: f64 = info.reg.iter().filter(|v| **v > 0.0).sum();
        if pos > 0.0 {
            for a in 0..n {
                info.strat[a] = if info.reg[a] > 0.0 { info.reg[a] / pos } else { 0.0 };
            }
        } else if w == f64::INFINITY || w == f64::NEG_INFINITY {
            let want_max = w == f64::INFINITY;
            let ext = if want_max {
                info.reg.iter().cloned().fold(f64::NEG_INFINITY, f64::max)
            } else {
                info.reg.iter().cloned().fold(f64::INFINITY, f64::min)
            };
            let tied: Vec<usize> = (0..n).filter(|a| info.reg[*a] == ext).collect();
            let pol = if want_max { tie.max } else { tie.min };
            info.strat.iter_mut().for_each(|v| *v = 0.0);
            match pol {
                Tie::First => info.strat[tied[0]] = 1.0,
                Tie::Last => info.strat[*tied.last().unwrap()] = 1.0,
                Tie::Uniform => {
                    for a in &tied {
                        info.strat[*a] = 1.0 / tied.len() as f64;
                    }
                }
                Tie::Unknown => {
                    if tied.len() > 1 {
                        why = Some("exact-tie-unknown-policy");
                    }
                    info.strat[tied[0]] = 1.0;
                }
            }
        } else if w == 0.0 {
            let u = 1.0 / n as f64;
            info.strat.iter_mut().for_each(|v| *v = u);
        } else {
            // softmax of w * regret, computed stably
            let m = info.reg.iter().map(|r| r * w).fold(f64::NEG_INFINITY, f64::max);
            let e: Vec<f64> = info.reg.iter().map(|r| (r * w - m).exp()).collect();
            let z: f64 = e.iter().sum();
            for a in 0..n {
                info.strat[a] = e[a] / z;
            }
        }
        if std::env::var("VERIF_DEBUG_REG").is_ok() {
            let info = &self.infos[p][i];
            eprintln!("REG p={p} {} reg={:?} mag={:?} strat={:?} why={why:?}", self.tree.names[p][i], info.reg, info.mag, info.strat);
        }
        if let Some(w) = why {
            self.flag(w);
        }
    }

    /// end-of-iteration bookkeeping for one player; returns that player's bound
    fn advance(&mut self, p: usize, t: u64, strat_t: u64) -> f64 {
        let [alpha, beta, gamma, _] = self.cfg.params;
        let mut bound = 0.0;
        for i in 0..self.infos[p].len() {
            self.regret_match(p, i);
            let info = &mut self.infos[p][i];
            let (dp, dn) = (disc(t, alpha), disc(t, beta));
            for a in 0..info.n {
                if info.reg[a] > 0.0 {
                    info.reg[a] *= dp;
                    info.mag[a] *= dp;
                } else if info.reg[a] < 0.0 {
                    info.reg[a] *= dn;
                    info.mag[a] *= dn;
                }
            }
            if gamma > 0.0 {
                let w = (strat_t as f64 / (strat_t as f64 + 1.0)).powf(gamma);
                info.cum.iter_mut().for_each(|c| *c *= w);
            }
            bound += 2.0 * info.reg.iter().cloned().fold(0.0f64, f64::max) / t as f64;
            info.cached = None;
            info.pass += 1;
        }
        bound
    }

    fn chance_draw(&mut self, ci: usize) -> usize {
        if let Some(x) = self.chance[ci].cached {
            return x;
        }
        let pass = self.chance[ci].pass;
        let mut rng = keyed(self.cfg.seed, KIND_CHANCE, ci, pass);
        if self.chance[ci].table.is_none() {
            self.chance[ci].table = Some(WeightedAliasIndex::new(self.tree.lib_chance_probs[ci].clone()).unwrap());
        }
        let x = self.chance[ci].table.as_ref().unwrap().sample(&mut rng);
        self.chance[ci].cached = Some(x);
        self.draws.push(Draw { kind: KIND_CHANCE, vid: ci, pass, weights: self.tree.lib_chance_probs[ci].clone(), result: x });
        x
    }

    fn player_draw(&mut self, p: usize, i: usize) -> usize {
        let vid = if p == 0 { i } else { self.infos[0].len() + i };
        if let Some(x) = self.infos[p][i].cached {
            return x;
        }
        let pass = self.infos[p][i].pass;
        let mut rng = keyed(self.cfg.seed, KIND_PLAYER, vid, pass);
        let u = (rng.step() >> 11) as f64 / (1u64 << 53) as f64;
        let info = &self.infos[p][i];
        let mut cum = 0.0;
        let mut k = info.n - 1;
        let mut near = false;
        for a in 0..info.n - 1 {
            cum += info.strat[a];
            if (u - cum).abs() < 1e-9 {
                near = true;
            }
        }
        cum = 0.0;
        for a in 0..info.n - 1 {
            cum += info.strat[a];
            if u <= cum {
                k = a;
                break;
            }
        }
        let weights = info.strat.clone();
        if near {
            self.flag("variate-near-cdf-boundary");
        }
        self.infos[p][i].cached = Some(k);
        self.draws.push(Draw { kind: KIND_PLAYER, vid, pass, weights, result: k });
        k
    }

    /// simultaneous-update traversal; returns the value to player one
    fn walk(&mut self, n: &RN, pc: f64, pp: [f64; 2], sampled: bool) -> f64 {
        match n {
            RN::T(x) => *x,
            RN::C(ci, kids) => {
                if sampled {
                    let k = self.chance_draw(*ci);
                    self.walk(&kids[k], pc, pp, sampled)
                } else {
                    let mut e = 0.0;
                    for (k, kid) in kids.iter().enumerate() {
                        let q = self.tree.chance_probs[*ci][k];
                        e += q * self.walk(kid, pc * q, pp, sampled);
                    }
                    e
                }
            }
            RN::P(p, i, kids) => {
                let strat = self.infos[*p][*i].strat.clone();
                {
                    let info = &mut self.infos[*p][*i];
                    info.visited = true;
                    for a in 0..strat.len() {
                        info.cum[a] += pp[*p] * strat[a];
                    }
                }
                let mut utils = vec![0.0; kids.len()];
                for (a, k) in kids.iter().enumerate() {
                    let mut q = pp;
                    q[*p] *= strat[a];
                    utils[a] = self.walk(k, pc, q, sampled);
                }
                let ev: f64 = utils.iter().zip(&strat).map(|(u, s)| u * s).sum();
                // counterfactual weight: chance and opponent reach; sign makes it the mover's gain
                let cf = if *p == 0 { pc * pp[1] } else { -pc * pp[0] };
                let order = self.order;
                let info = &mut self.infos[*p][*i];
                if order == 0 {
                    for a in 0..kids.len() {
                        info.reg[a] += cf * (utils[a] - ev);
                    }
                } else {
                    let mut exp = 0.0;
                    for a in 0..kids.len() {
                        let u = utils[a] * cf;
                        exp += u * strat[a];
                        info.reg[a] += u;
                    }
                    for a in 0..kids.len() {
                        info.reg[a] -= exp;
                    }
                }
                for a in 0..kids.len() {
                    info.mag[a] += (cf * utils[a]).abs() + (cf * ev).abs();
                }
                ev
            }
        }
    }

    /// external-sampling traversal for the updating player `active`; value to `active`
    fn ext(&mut self, n: &RN, active: usize) -> f64 {
        match n {
            RN::T(x) => {
                if active == 0 {
                    *x
                } else {
                    -*x
                }
            }
            RN::C(ci, kids) => {
                let k = self.chance_draw(*ci);
                self.ext(&kids[k], active)
            }
            RN::P(p, i, kids) => {
                if *p == active {
                    let strat = self.infos[*p][*i].strat.clone();
                    self.infos[*p][*i].visited = true;
                    let utils: Vec<f64> = kids.iter().map(|k| self.ext(k, active)).collect();
                    let ev: f64 = utils.iter().zip(&strat).map(|(u, s)| u * s).sum();
                    let order = self.order;
                    let info = &mut self.infos[*p][*i];
                    if order == 0 {
                        for a in 0..kids.len() {
                            info.reg[a] += utils[a] - ev;
                        }
                    } else {
                        for a in 0..kids.len() {
                            info.reg[a] += utils[a];
                        }
                        for a in 0..kids.len() {
                            info.reg[a] -= ev;
                        }
                    }
                    for a in 0..kids.len() {
                        info.mag[a] += utils[a].abs() + ev.abs();
                    }
                    ev
                } else {
                    let strat = self.infos[*p][*i].strat.clone();
                    for a in 0..strat.len() {
                        self.infos[*p][*i].cum[a] += strat[a];
                    }
                    let k = self.player_draw(*p, *i);
                    self.ext(&kids[k], active)
                }
            }
        }
    }

    fn reset_chance(&mut self) {
        for c in self.chance.iter_mut() {
            c.cached = None;
            c.pass += 1;
        }
    }
}

/// The documented iterates, computed in two legal orders of operations. A run on which the two
/// disagree is ill-conditioned by definition (the documentation does not fix the order), and is
/// reported as such; otherwise the first is returned.
pub fn reference(tree: &RTree, cfg: &RefCfg) -> RefOut {
    let mut a = reference_in_order(tree, cfg, 0);
    if a.ill.is_some() {
        return a;
    }
    let b = reference_in_order(tree, cfg, 1);
    let mut differs = a.iterations != b.iterations || a.draws.len() != b.draws.len();
    if !differs {
        for (x, y) in a.draws.iter().zip(&b.draws) {
            if x.kind != y.kind || x.vid != y.vid || x.pass != y.pass || x.result != y.result || x.weights.iter().zip(&y.weights).any(|(p, q)| (p - q).abs() > 1e-9) {
                differs = true;
                break;
            }
        }
    }
    if !differs {
        differs = crate::model::profile_diff(&a.profile, &b.profile).map(|d| d > 1e-8).unwrap_or(true);
    }
    if !differs {
        for p in 0..2 {
            let (x, y) = (a.bounds[p], b.bounds[p]);
            if x.is_finite() != y.is_finite() || (x.is_finite() && (x - y).abs() > 1e-7 * x.abs().max(y.abs())) {
                differs = true;
            }
        }
    }
    if differs {
        a.ill = Some("summation-order-sensitive");
    } else if b.ill.is_some() {
        a.ill = b.ill;
    }
    a
}

fn reference_in_order(tree: &RTree, cfg: &RefCfg, order: u8) -> RefOut {
    let mk = |p: usize| -> Vec<Info> {
        tree.actions[p]
            .iter()
            .map(|a| {
                let n = a.len();
                Info {
                    n,
                    reg: vec![0.0; n],
                    mag: vec![0.0; n],
                    cum: vec![0.0; n],
                    strat: vec![1.0 / n as f64; n],
                    pass: 0,
                    cached: None,
                    visited: false,
                }
            })
            .collect()
    };
    let mut r = Ref {
        tree,
        infos: [mk(0), mk(1)],
        chance: tree.lib_chance_probs.iter().map(|_| CInfo { table: None, pass: 0, cached: None }).collect(),
        cfg,
        ill: None,
        draws: vec![],
        order,
    };
    let mut b = [f64::INFINITY; 2];
    let mut history = vec![];
    let mut iterations = 0;
    let mut min_gap = f64::INFINITY;
    for t in 1..=cfg.t {
        match cfg.method {
            Method::Full | Method::Sampled => {
                r.walk(&tree.root, 1.0, [1.0; 2], cfg.method == Method::Sampled);
                r.reset_chance();
                b[0] = r.advance(0, t, t);
                b[1] = r.advance(1, t, t);
            }
            Method::External => {
                r.ext(&tree.root, 0);
                r.reset_chance();
                b[0] = r.advance(0, t, t - 1);
                r.ext(&tree.root, 1);
                r.reset_chance();
                b[1] = r.advance(1, t, t);
            }
        }
        iterations = t;
        history.push(b);
        let tot = b[0].max(b[1]);
        if cfg.thresh.is_finite() && cfg.thresh > 0.0 {
            let gap = (tot - cfg.thresh).abs() / cfg.thresh.abs().max(1e-300);
            if gap < min_gap {
                min_gap = gap;
            }
        }
        if tot < cfg.thresh {
            break;
        }
    }
    let mut profile: Profile = Default::default();
    for p in 0..2 {
        for (i, info) in r.infos[p].iter().enumerate() {
            let z: f64 = info.cum.iter().sum();
            let probs: Vec<f64> =
                if z == 0.0 { vec![1.0 / info.n as f64; info.n] } else { info.cum.iter().map(|c| c / z).collect() };
            let m: BTreeMap<String, f64> = tree.actions[p][i]
                .iter()
                .zip(probs)
                .filter(|(_, q)| *q > 0.0)
                .map(|(a, q)| (a.clone(), q))
                .collect();
            profile[p].insert(tree.names[p][i].clone(), m);
        }
        for (i, a) in &tree.singles[p] {
            profile[p].insert(i.clone(), [(a.clone(), 1.0)].into_iter().collect());
        }
    }
    RefOut { profile, bounds: b, iterations, ill: r.ill, draws: r.draws, history, min_thresh_gap: min_gap }
}

/// Learn how the build under test breaks exact ties in the arg-max / arg-min fallback
/// (the documentation does not say). Must run inside a simulated execution.
pub fn learn_tie_policy() -> TiePolicy {
    use crate::solve::{observed_solve, SolveCfg};
    use crate::common::ParamSpec;
    let probe = |w: f64| -> Tie {
        let g = MNode::P {
            player: 0,
            info: "probe".into(),
            acts: (0..3).map(|i| (format!("a{i}"), MNode::T(0.0))).collect(),
        };
        let game = match g.build() {
            Ok(g) => g,
            Err(_) => return Tie::Unknown,
        };
        // vanilla discounting and averaging, only the fallback weight set: after iteration 1 all
        // regrets are exactly zero, so iteration 2 plays the tie-broken action
        let cfg = SolveCfg::new(Method::Full, ParamSpec::Custom([f64::INFINITY, f64::INFINITY, 0.0, w]), 2, 0.0, 1, 0);
        let out = observed_solve(&game, &cfg);
        match out.result {
            Ok(s) => {
                let m = &s.profile[0]["probe"];
                let q: Vec<f64> = (0..3).map(|i| m.get(&format!("a{i}")).copied().unwrap_or(0.0)).collect();
                let close = |a: f64, b: f64| (a - b).abs() < 1e-12;
                if close(q[0], 2.0 / 3.0) && close(q[1], 1.0 / 6.0) {
                    Tie::First
                } else if close(q[2], 2.0 / 3.0) && close(q[1], 1.0 / 6.0) {
                    Tie::Last
                } else if close(q[0], 1.0 / 3.0) && close(q[1], 1.0 / 3.0) {
                    Tie::Uniform
                } else {
                    Tie::Unknown
                }
            }
            Err(_) => Tie::Unknown,
        }
    };
    TiePolicy { max: probe(f64::INFINITY), min: probe(f64::NEG_INFINITY) }
}

/// which player draws are compared exactly: a library draw must equal the index the
/// documented inverse CDF gives for the weights presented and the keyed variate
pub fn expected_player_index(seed: u64, d: &Draw) -> (usize, bool) {
    let mut rng = keyed(seed, KIND_PLAYER, d.vid, d.pass);
    let u = (rng.step() >> 11) as f64 / (1u64 << 53) as f64;
    let n = d.weights.len();
    let mut cum = 0.0;
    let mut k = n - 1;
    let mut near = false;
    let mut found = false;
    for a in 0..n.saturating_sub(1) {
        cum += d.weights[a];
        if (u - cum).abs() < 1e-12 {
            near = true;
        }
        if !found && u <= cum {
            k = a;
            found = true;
        }
    }
    (k, near)
}
