//! `check <ID> [--tier quick|thorough] [--replay FILE] [--hashes N]`
use harness::common::Tier;
use harness::driver::{self, Prop};
use harness::props;

fn run<P: Prop>(p: &P, tier: Tier, replay: Option<String>, hashes: Option<u64>) -> i32 {
    if let Some(f) = replay {
        return driver::replay(p, &f);
    }
    if let Some(n) = hashes {
        driver::dump_hashes(p, tier, n);
        return 0;
    }
    driver::check_main(p, tier).exit
}

fn main() {
    let args: Vec<String> = std::env::args().skip(1).collect();
    let mut id: Option<String> = None;
    let mut tier = match std::env::var("VERIF_TIER").as_deref() {
        Ok("thorough") => Tier::Thorough,
        _ => Tier::Quick,
    };
    let mut replay = None;
    let mut hashes = None;
    let mut i = 0;
    while i < args.len() {
        match args[i].as_str() {
            "--tier" => {
                i += 1;
                tier = match args.get(i).map(|s| s.as_str()) {
                    Some("quick") => Tier::Quick,
                    Some("thorough") => Tier::Thorough,
                    other => {
                        eprintln!("HARNESS-ERROR bad tier {other:?}");
                        std::process::exit(2);
                    }
                };
            }
            "--replay" => {
                i += 1;
                replay = args.get(i).cloned();
            }
            "--hashes" => {
                i += 1;
                hashes = args.get(i).and_then(|s| s.parse().ok());
            }
            s => id = Some(s.to_string()),
        }
        i += 1;
    }
    // a replay file names its property
    if id.is_none() {
        if let Some(f) = &replay {
            if let Ok(s) = std::fs::read_to_string(f) {
                if let Ok(v) = serde_json::from_str::<serde_json::Value>(&s) {
                    id = v["property"].as_str().map(|s| s.to_string());
                }
            }
        }
    }
    let id = match id {
        Some(i) => i,
        None => {
            eprintln!("usage: check <ID> [--tier quick|thorough] [--replay FILE]");
            std::process::exit(2);
        }
    };
    harness::sched::install_quiet_panic_hook();
    let _ = harness::cond::tie_policy();
    // shuttle installs (once per process) a panic hook that prints two lines for every panic
    // in the process; the first simulated execution above has triggered that, so our quiet hook
    // can now replace it for good (schedules are persisted by the harness, not by shuttle)
    harness::sched::install_quiet_panic_hook();
    let code = match id.as_str() {
        "C17" => run(&props::cli17::CliRejects, tier, replay, hashes),
        "C16" => run(&props::cli16::CliOptions, tier, replay, hashes),
        "C15" => run(&props::cli15::CliFaithful, tier, replay, hashes),
        "C10" => run(&props::sampling::Sampling, tier, replay, hashes),
        "C09" => run(&props::early::EarlyStop, tier, replay, hashes),
        "C08" => run(&props::refine::Refinement, tier, replay, hashes),
        "C02" => run(&props::regret::BoundDominates, tier, replay, hashes),
        "C03" => run(&props::regret::CfrRate, tier, replay, hashes),
        "C04" => run(&props::regret::SampledConverge, tier, replay, hashes),
        "C05" => run(&props::totality::Totality, tier, replay, hashes),
        "C06" => run(&props::threads::Threads { sampled: false }, tier, replay, hashes),
        "C07" => run(&props::threads::Threads { sampled: true }, tier, replay, hashes),
        other => {
            eprintln!("HARNESS-ERROR unknown or not-applicable property {other}");
            2
        }
    };
    std::process::exit(code);
}
