//! developer tool (DESIGN 8.3): prints the first N cases of check C06 as JSON lines, each with the
//! conditioning verdict of the harness, for `tools/realprobe --batch` (real rayon, guard off).
use harness::common::*;
use harness::cond;
use harness::driver::{run_seed, verif_seed, Prop};
use harness::props::threads::{Threads, PROB_TOL};
use harness::rng::Rng;
use harness::solve::{observed_solve, SolveCfg};

fn main() {
    let n: u64 = std::env::args().nth(1).and_then(|s| s.parse().ok()).unwrap_or(1000);
    harness::sched::install_quiet_panic_hook();
    let _ = cond::tie_policy();
    harness::sched::install_quiet_panic_hook();
    let p = Threads { sampled: false };
    for idx in 0..n {
        let mut r = Rng::new(run_seed(verif_seed(), p.id(), idx));
        let case = p.gen(&mut r, Tier::Quick, idx);
        let game = match case.game.build() {
            Ok(g) => g,
            Err(_) => continue,
        };
        let cfg1 = SolveCfg::new(case.method, case.params.clone(), case.t, case.thresh, 1, case.sampling_seed);
        let base = observed_solve(&game, &cfg1);
        let ill = match &base.result {
            Ok(b) => std::panic::catch_unwind(std::panic::AssertUnwindSafe(|| cond::ill_conditioned(&case.game, &game, &cfg1, b, PROB_TOL))).unwrap_or(Some("panicked")),
            Err(_) => Some("failed"),
        };
        println!("{}", serde_json::json!({"idx": idx, "ill": ill, "case": case.to_json()}));
    }
}
