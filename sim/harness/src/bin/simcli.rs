fn main() {}
