//! The repository's real `main()` (hook H8) executed inside ONE simulated execution: the
//! rayon / atomic / mutex stand-ins, the seeded scheduler, keyed sampling and the core-count
//! override apply exactly as in the in-process checks; argument parsing, input reading, the
//! parsers, solving, clipping and JSON output are the unmodified sources of src/main.rs.
//!
//! Controlled through the environment (all optional):
//!   CFR_VERIF_SCHED_POLICY  random | nopreempt | pct:<changes>:<horizon>     (default nopreempt)
//!   CFR_VERIF_SCHED_SEED    u64
//!   CFR_VERIF_SAMPLING_SEED u64   (absent: real thread_rng entropy)
//!   CFR_VERIF_CORES         unknown | <n>   (absent: ask the OS)
//!   CFR_VERIF_BUGGIFY       0 | 1
//!   CFR_VERIF_STEP_BUDGET   u64: decision-node visits after which the run counts as hung
//!   CFR_VERIF_REPORT        path of a JSON report written after main() returned
use cfr_verif_seam as seam;
use harness::sched::{Policy, SchedSpec};
use shuttle::scheduler::{Schedule, Scheduler, Task, TaskId};
use std::sync::{Arc, Mutex};

fn env_u64(k: &str) -> Option<u64> {
    std::env::var(k).ok().and_then(|s| s.parse().ok())
}

struct Fwd(Box<dyn Scheduler + Send>);
impl Scheduler for Fwd {
    fn new_execution(&mut self) -> Option<Schedule> {
        self.0.new_execution()
    }
    fn next_task(&mut self, r: &[&Task], c: Option<TaskId>, y: bool) -> Option<TaskId> {
        self.0.next_task(r, c, y)
    }
    fn next_u64(&mut self) -> u64 {
        self.0.next_u64()
    }
}

fn main() {
    let seed = env_u64("CFR_VERIF_SCHED_SEED").unwrap_or(0);
    let policy = match std::env::var("CFR_VERIF_SCHED_POLICY").unwrap_or_default().as_str() {
        "random" => Policy::Random,
        s if s.starts_with("pct:") => {
            let mut it = s[4..].split(':');
            let changes = it.next().and_then(|x| x.parse().ok()).unwrap_or(1);
            let horizon = it.next().and_then(|x| x.parse().ok()).unwrap_or(1000);
            Policy::Pct { changes, horizon }
        }
        _ => Policy::NoPreempt,
    };
    let spec = SchedSpec { policy, seed, trace: None };
    let sampling = env_u64("CFR_VERIF_SAMPLING_SEED");
    let cores = match std::env::var("CFR_VERIF_CORES").ok().as_deref() {
        Some("unknown") => seam::Cores::Unknown,
        Some(n) => n.parse::<usize>().map(seam::Cores::Count).unwrap_or(seam::Cores::Real),
        None => seam::Cores::Real,
    };
    let buggify = std::env::var("CFR_VERIF_BUGGIFY").map(|s| s != "0").unwrap_or(true);
    let report = std::env::var("CFR_VERIF_REPORT").ok();
    let step_budget = env_u64("CFR_VERIF_STEP_BUDGET").unwrap_or(0);
    let out = Arc::new(Mutex::new(harness::sched::SchedOut::default()));
    let mut cfg = shuttle::Config::new();
    cfg.stack_size = 8 << 20; // clap and serde run inside the execution
    cfg.failure_persistence = shuttle::FailurePersistence::None;
    cfg.silence_warnings = true;
    cfg.max_steps = shuttle::MaxSteps::FailAfter(200_000_000);
    let sched = harness::sched::new_scheduler(spec, out.clone());
    let runner = shuttle::Runner::new(Fwd(sched), cfg);
    let stats: Arc<Mutex<Option<serde_json::Value>>> = Arc::new(Mutex::new(None));
    let stats2 = stats.clone();
    runner.run(move || {
        seam::begin(seam::Begin { sampling_seed: sampling, cores, record_draws: false, record_visits: false, step_budget });
        verif_rayon_shim::control::begin(verif_rayon_shim::control::Plan { fail_build: false, max_spawn: 4096, buggify });
        harness::real_main::verif::entry();
        let ctx = seam::end();
        let ray = verif_rayon_shim::control::end();
        *stats2.lock().unwrap() = Some(serde_json::json!({
            "pool_sizes": ray.pool_sizes,
            "par_calls": ray.par_calls,
            "max_workers": ray.max_workers,
            "draws": ctx.draw_counts.len(),
            "visits": ctx.stats.visits,
            "cores_unknown_fired": ctx.stats.cores_unknown_fired,
            "cores_override_fired": ctx.stats.cores_override_fired,
        }));
    });
    if let Some(path) = report {
        let o = out.lock().unwrap();
        let mut v = stats.lock().unwrap().take().unwrap_or(serde_json::json!({}));
        v["sched_steps"] = serde_json::json!(o.steps);
        v["sched_preemptions"] = serde_json::json!(o.preemptions);
        v["trace_hash"] = serde_json::json!(format!("{:016x}", o.trace.hash()));
        let _ = std::fs::write(path, v.to_string());
    }
}
