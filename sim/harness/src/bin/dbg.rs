//! developer tool: print library results for several K and the reference for a replay file's case
use harness::common::*;
use harness::cond;
use harness::refmodel::{reference, RefCfg};
use harness::sched::{simulate, SchedSpec};
use harness::solve::{observed_solve, SolveCfg};
fn main() {
    let f = std::env::args().nth(1).unwrap();
    let doc: serde_json::Value = serde_json::from_str(&std::fs::read_to_string(f).unwrap()).unwrap();
    let case = LibCase::from_json(&doc["case"]).unwrap();
    harness::sched::install_quiet_panic_hook();
    let _ = cond::tie_policy();
    println!("tie policy {:?}", cond::tie_policy());
    for k in [1usize, 2, 3, 4] {
        let c = case.clone();
        let r = simulate(&SchedSpec::nopreempt(), move || {
            let game = c.game.build().unwrap();
            let mut cfg = SolveCfg::new(c.method, c.params.clone(), c.t, c.thresh, k, c.sampling_seed);
            cfg.buggify = false;
            observed_solve(&game, &cfg)
        });
        match r.value {
            Ok(o) => match o.result {
                Ok(s) => println!("K={k} bounds={:?}\n   {}", s.bounds, serde_json::to_string(&harness::model::profile_json(&s.profile)).unwrap()),
                Err(e) => println!("K={k} err {e:?}"),
            },
            Err(f) => println!("K={k} failure {}", f.message()),
        }
    }
    if std::env::args().nth(2).as_deref() == Some("prefix") {
        for t in 1..=case.t {
            let c = case.clone();
            let r = simulate(&SchedSpec::nopreempt(), move || {
                let game = c.game.build().unwrap();
                let mut cfg = SolveCfg::new(c.method, c.params.clone(), t, 0.0, 1, c.sampling_seed);
                cfg.buggify = false;
                observed_solve(&game, &cfg)
            });
            let lib = r.value.ok().and_then(|o| o.result.ok()).unwrap();
            let game = case.game.build().unwrap();
            let tree = cond::compile_for(&case.game, &game).unwrap();
            let rf = reference(&tree, &RefCfg { method: case.method, params: case.params.documented(), t, thresh: 0.0, seed: case.sampling_seed, tie: cond::tie_policy() });
            for p in 0..2 {
                for (i, m) in &lib.profile[p] {
                    let rm = &rf.profile[p][i];
                    if m.iter().any(|(a, q)| (q - rm.get(a).copied().unwrap_or(0.0)).abs() > 1e-9) || m.len() != rm.len() {
                        println!("t={t} p={p} {i}: lib {m:?}\n                ref {rm:?}");
                    }
                }
            }
            println!("t={t} bounds lib {:?} ref {:?} ill {:?}", lib.bounds, rf.bounds, rf.ill);
        }
    }
    let game = case.game.build().unwrap();
    let tree = cond::compile_for(&case.game, &game).unwrap();
    let r = reference(&tree, &RefCfg { method: case.method, params: case.params.documented(), t: case.t, thresh: case.thresh, seed: case.sampling_seed, tie: cond::tie_policy() });
    println!("REF ill={:?} bounds={:?}\n   {}", r.ill, r.bounds, serde_json::to_string(&harness::model::profile_json(&r.profile)).unwrap());
}
