//! Seam between the guarded hooks in the repository (`--cfg cfr_verif`) and the simulator.
//!
//! Everything here is execution-local: all simulated "threads" of one shuttle
//! execution are coroutines on one OS thread, so a plain `thread_local!` is
//! shared by exactly the tasks of one simulated run and by nothing else.
//!
//! The hooks call:
//!   * `sync::Mutex`                       (H2)  — shuttle's mutex instead of std's
//!   * `thread::available_parallelism`     (H5)  — overridable core count
//!   * `register_chance/chance_*`          (H3)  — chance sampling site
//!   * `register_player/player_*`          (H4)  — opponent sampling site
//!   * `visit`                             (H9)  — decision-node visit observer
//!   * `Dump*` types                       (H6)  — compact-tree dump
use rand::RngCore;
use std::cell::RefCell;
use std::collections::BTreeMap;
use std::num::NonZeroUsize;

pub mod sync {
    //! Mutex handed to the solvers (H2): shuttle's mutex plus one scheduling point right
    //! AFTER every successful acquisition. Without it a critical section that contains no
    //! other synchronisation would be atomic for the simulator, and a `try_lock()` of a
    //! second worker could never observe the lock held — which real threads can.
    use shuttle::sync::{LockResult, MutexGuard, TryLockResult};
    use std::fmt;

    pub struct Mutex<T: ?Sized>(shuttle::sync::Mutex<T>);

    fn held_point() {
        shuttle::thread::sleep(std::time::Duration::from_nanos(0));
    }

    impl<T> Mutex<T> {
        pub fn new(value: T) -> Self {
            Mutex(shuttle::sync::Mutex::new(value))
        }

        pub fn into_inner(self) -> LockResult<T> {
            self.0.into_inner()
        }
    }

    impl<T: ?Sized> Mutex<T> {
        pub fn lock(&self) -> LockResult<MutexGuard<'_, T>> {
            let guard = self.0.lock();
            held_point();
            guard
        }

        pub fn try_lock(&self) -> TryLockResult<MutexGuard<'_, T>> {
            let guard = self.0.try_lock();
            if guard.is_ok() {
                held_point();
            }
            guard
        }

        pub fn get_mut(&mut self) -> LockResult<&mut T> {
            self.0.get_mut()
        }
    }

    impl<T: Default> Default for Mutex<T> {
        fn default() -> Self {
            Mutex::new(T::default())
        }
    }

    impl<T> From<T> for Mutex<T> {
        fn from(v: T) -> Self {
            Mutex::new(v)
        }
    }

    impl<T: ?Sized + fmt::Debug> fmt::Debug for Mutex<T> {
        fn fmt(&self, f: &mut fmt::Formatter<'_>) -> fmt::Result {
            f.write_str("Mutex { .. }")
        }
    }
}

/// Replacement for `std::thread` as far as `lib.rs` uses it (H5).
pub mod thread {
    use std::io;
    use std::num::NonZeroUsize;
    pub fn available_parallelism() -> io::Result<NonZeroUsize> {
        match super::CTX.with(|c| c.borrow().cores) {
            super::Cores::Real => std::thread::available_parallelism(),
            super::Cores::Unknown => {
                super::CTX.with(|c| c.borrow_mut().stats.cores_unknown_fired += 1);
                Err(io::Error::new(io::ErrorKind::Unsupported, "simulated: core count unknown"))
            }
            super::Cores::Count(n) => {
                super::CTX.with(|c| c.borrow_mut().stats.cores_override_fired += 1);
                Ok(NonZeroUsize::new(n.max(1)).unwrap())
            }
        }
    }
}

/// SplitMix64 used as the keyed generator.
#[derive(Clone, Debug)]
pub struct KeyedRng(pub u64);

impl KeyedRng {
    #[inline]
    pub fn step(&mut self) -> u64 {
        self.0 = self.0.wrapping_add(0x9E3779B97F4A7C15);
        let mut z = self.0;
        z = (z ^ (z >> 30)).wrapping_mul(0xBF58476D1CE4E5B9);
        z = (z ^ (z >> 27)).wrapping_mul(0x94D049BB133111EB);
        z ^ (z >> 31)
    }
}

impl RngCore for KeyedRng {
    fn next_u32(&mut self) -> u32 {
        (self.step() >> 32) as u32
    }
    fn next_u64(&mut self) -> u64 {
        self.step()
    }
    fn fill_bytes(&mut self, dest: &mut [u8]) {
        for c in dest.chunks_mut(8) {
            let b = self.step().to_le_bytes();
            c.copy_from_slice(&b[..c.len()]);
        }
    }
    fn try_fill_bytes(&mut self, dest: &mut [u8]) -> Result<(), rand::Error> {
        self.fill_bytes(dest);
        Ok(())
    }
}

pub const KIND_CHANCE: u8 = 1;
pub const KIND_PLAYER: u8 = 2;

/// The draw made at (kind, infoset id, pass) is a pure function of the sampling seed.
pub fn key(seed: u64, kind: u8, vid: usize, pass: u64) -> u64 {
    let mut r = KeyedRng(
        seed ^ (kind as u64).wrapping_mul(0xA24BAED4963EE407)
            ^ (vid as u64).wrapping_mul(0x9FB21C651E98DF25)
            ^ pass.wrapping_mul(0xD6E8FEB86659FD93),
    );
    r.step();
    r.step()
}

pub fn keyed(seed: u64, kind: u8, vid: usize, pass: u64) -> KeyedRng {
    KeyedRng(key(seed, kind, vid, pass))
}

#[derive(Clone, Copy, Debug, PartialEq, Eq, Default)]
pub enum Cores {
    /// ask the real OS
    #[default]
    Real,
    /// `available_parallelism()` fails
    Unknown,
    /// `available_parallelism()` returns this
    Count(usize),
}

#[derive(Clone, Debug, PartialEq)]
pub struct Draw {
    pub kind: u8,
    pub vid: usize,
    pub pass: u64,
    /// weights the production code presented to its sampler (player draws: the
    /// current strategy; chance draws: the registered probabilities)
    pub weights: Vec<f64>,
    pub result: usize,
}

#[derive(Clone, Debug, Default)]
pub struct Stats {
    pub chance_sample_calls: u64,
    pub chance_cache_hits: u64,
    pub player_sample_calls: u64,
    pub player_cache_hits: u64,
    pub visits: u64,
    /// draws made (both sites); they feed the step budget too, so that a run-away loop that
    /// samples but never reaches a decision node is stopped before its draw log eats the memory
    pub draws: u64,
    pub cores_unknown_fired: u64,
    pub cores_override_fired: u64,
}

/// visit kinds (H9)
pub const VISIT_SINGLE: u8 = 1; // vanilla.rs recurse_single
pub const VISIT_MULTI: u8 = 2; // vanilla.rs recurse_multi
pub const VISIT_EXT_ACTIVE: u8 = 3; // external.rs recurse_regret, updating player
pub const VISIT_EXT_SAMPLED: u8 = 4; // external.rs recurse_regret, sampled player

#[derive(Debug, Default)]
pub struct Ctx {
    pub sampling_seed: Option<u64>,
    pub cores: Cores,
    pub chance: Vec<(Vec<f64>, u64)>,
    pub player: Vec<(usize, u64)>,
    pub record_draws: bool,
    pub draws: Vec<Draw>,
    /// every (kind, vid, pass) at which a draw was made -> how many draws
    pub draw_counts: BTreeMap<(u8, usize, u64), u32>,
    pub record_visits: bool,
    /// (is_active_or_vanilla, player, infoset, node address) -> count
    pub visit_counts: BTreeMap<(u8, u8, usize, usize), u32>,
    pub step_budget: u64,
    pub stats: Stats,
    /// chance visits that returned something else than the outcome drawn in this pass
    pub chance_inconsistent: u64,
    chance_current: Vec<usize>,
}

thread_local! {
    pub static CTX: RefCell<Ctx> = RefCell::new(Ctx::default());
}

/// Configuration of one observed solve.
#[derive(Clone, Copy, Debug, Default)]
pub struct Begin {
    pub sampling_seed: Option<u64>,
    pub cores: Cores,
    pub record_draws: bool,
    pub record_visits: bool,
    /// 0 = unlimited
    pub step_budget: u64,
}

pub fn begin(b: Begin) {
    CTX.with(|c| {
        *c.borrow_mut() = Ctx {
            sampling_seed: b.sampling_seed,
            cores: b.cores,
            record_draws: b.record_draws,
            record_visits: b.record_visits,
            step_budget: b.step_budget,
            ..Default::default()
        }
    })
}

/// Take the observations of the solve that just finished and reset the seam.
pub fn end() -> Ctx {
    CTX.with(|c| std::mem::take(&mut *c.borrow_mut()))
}

pub const STEP_BUDGET_MSG: &str = "cfr-verif: step budget exceeded";
pub const CANCELLED_MSG: &str = "cfr-verif: execution cancelled by the watchdog";

thread_local! {
    /// set by the watchdog when it gives up on the execution running on this executor thread:
    /// every hook then panics, so that an abandoned run-away execution unwinds instead of
    /// spinning (and allocating) for ever
    static CANCEL: RefCell<Option<std::sync::Arc<std::sync::atomic::AtomicBool>>> = const { RefCell::new(None) };
}

pub fn set_cancel_flag(flag: std::sync::Arc<std::sync::atomic::AtomicBool>) {
    CANCEL.with(|c| *c.borrow_mut() = Some(flag));
}

pub fn cancelled() -> bool {
    CANCEL.with(|c| c.borrow().as_ref().map(|f| f.load(std::sync::atomic::Ordering::Relaxed)).unwrap_or(false))
}

// ---------------------------------------------------------------- chance site (H3)

pub fn register_chance(probs: &[f64]) -> usize {
    CTX.with(|c| {
        let mut c = c.borrow_mut();
        c.chance.push((probs.to_vec(), 0));
        c.chance_current.push(usize::MAX);
        c.chance.len() - 1
    })
}

/// Called at entry of `SampledChance::sample`; `cached` is the private cache field
/// (0 = nothing drawn yet in this pass, k+1 = outcome k).
pub fn chance_enter(vid: usize, cached: usize) {
    CTX.with(|c| {
        let mut c = c.borrow_mut();
        c.stats.chance_sample_calls += 1;
        if cached != 0 {
            c.stats.chance_cache_hits += 1;
            if vid < c.chance_current.len() && c.chance_current[vid] != usize::MAX && c.chance_current[vid] != cached - 1 {
                c.chance_inconsistent += 1;
            }
        }
    })
}

pub fn chance_rng(vid: usize) -> Option<KeyedRng> {
    CTX.with(|c| {
        let c = c.borrow();
        match (c.sampling_seed, c.chance.get(vid)) {
            (Some(s), Some((_, pass))) => Some(keyed(s, KIND_CHANCE, vid, *pass)),
            _ => None,
        }
    })
}

fn count_draw(c: &mut Ctx) -> bool {
    if cancelled() {
        panic!("{}", CANCELLED_MSG);
    }
    c.stats.draws += 1;
    c.step_budget != 0 && c.stats.draws > c.step_budget
}

pub fn chance_drawn(vid: usize, result: usize) -> usize {
    let over = CTX.with(|c| count_draw(&mut c.borrow_mut()));
    if over {
        panic!("{}", STEP_BUDGET_MSG);
    }
    CTX.with(|c| {
        let mut c = c.borrow_mut();
        if vid >= c.chance.len() {
            return;
        }
        let pass = c.chance[vid].1;
        *c.draw_counts.entry((KIND_CHANCE, vid, pass)).or_insert(0) += 1;
        c.chance_current[vid] = result;
        if c.record_draws {
            let weights = c.chance[vid].0.clone();
            c.draws.push(Draw { kind: KIND_CHANCE, vid, pass, weights, result });
        }
    });
    result
}

pub fn chance_reset(vid: usize) {
    CTX.with(|c| {
        let mut c = c.borrow_mut();
        if vid < c.chance.len() {
            c.chance[vid].1 += 1;
            c.chance_current[vid] = usize::MAX;
        }
    })
}

// ---------------------------------------------------------------- player site (H4)

pub fn register_player(num_actions: usize) -> usize {
    CTX.with(|c| {
        let mut c = c.borrow_mut();
        c.player.push((num_actions, 0));
        c.player.len() - 1
    })
}

pub fn player_enter(_vid: usize, cached: usize) {
    CTX.with(|c| {
        let mut c = c.borrow_mut();
        c.stats.player_sample_calls += 1;
        if cached != 0 {
            c.stats.player_cache_hits += 1;
        }
    })
}

pub fn player_rng(vid: usize) -> Option<KeyedRng> {
    CTX.with(|c| {
        let c = c.borrow();
        match (c.sampling_seed, c.player.get(vid)) {
            (Some(s), Some((_, pass))) => Some(keyed(s, KIND_PLAYER, vid, *pass)),
            _ => None,
        }
    })
}

pub fn player_drawn(vid: usize, weights: &[f64], result: usize) -> usize {
    let over = CTX.with(|c| count_draw(&mut c.borrow_mut()));
    if over {
        panic!("{}", STEP_BUDGET_MSG);
    }
    CTX.with(|c| {
        let mut c = c.borrow_mut();
        if vid >= c.player.len() {
            return;
        }
        let pass = c.player[vid].1;
        *c.draw_counts.entry((KIND_PLAYER, vid, pass)).or_insert(0) += 1;
        if c.record_draws {
            c.draws.push(Draw { kind: KIND_PLAYER, vid, pass, weights: weights.to_vec(), result });
        }
    });
    result
}

pub fn player_reset(vid: usize) {
    CTX.with(|c| {
        let mut c = c.borrow_mut();
        if vid < c.player.len() {
            c.player[vid].1 += 1;
        }
    })
}

// ---------------------------------------------------------------- visits (H9)

/// One call per decision-node visit of a traversal. Also the step counter that
/// turns a hang into a deterministic, replayable failure.
pub fn visit(kind: u8, player_two: bool, infoset: usize, node_addr: usize) {
    if cancelled() {
        panic!("{}", CANCELLED_MSG);
    }
    let over = CTX.with(|c| {
        let mut c = c.borrow_mut();
        c.stats.visits += 1;
        if c.record_visits {
            *c.visit_counts.entry((kind, player_two as u8, infoset, node_addr)).or_insert(0) += 1;
        }
        c.step_budget != 0 && c.stats.visits > c.step_budget
    });
    if over {
        panic!("{}", STEP_BUDGET_MSG);
    }
}

// ---------------------------------------------------------------- dump (H6)

#[derive(Clone, Debug, PartialEq)]
pub enum DumpNode {
    Terminal(f64),
    Chance { infoset: usize, outcomes: Vec<DumpNode> },
    Player { player_two: bool, infoset: usize, actions: Vec<DumpNode> },
}

#[derive(Clone, Debug, PartialEq)]
pub struct Dump {
    pub root: DumpNode,
    /// normalised outcome probabilities per chance infoset, in index order
    pub chance_probs: Vec<Vec<f64>>,
    /// number of actions per (multi-action) infoset, per player, in index order
    pub num_actions: [Vec<usize>; 2],
}

pub fn nonzero(n: usize) -> NonZeroUsize {
    NonZeroUsize::new(n.max(1)).unwrap()
}
