//! Deterministic stand-in for the subset of rayon's API that cfr uses, executed on
//! shuttle threads so that the simulator's scheduler decides every interleaving.
//!
//! Semantics over-approximate what real rayon may legally do with a parallel
//! iterator: any assignment of items to at most K workers, any processing order,
//! any reduction grouping. All choices are drawn from `shuttle::rand` (i.e. from the
//! scheduler, which records them), so a recorded schedule replays them exactly.
use std::cell::RefCell;
use std::fmt;
use std::marker::PhantomData;
use std::rc::Rc;
use std::sync::Arc;

/// What the harness tells the stand-in to do, and what the stand-in observed.
pub mod control {
    use super::*;

    #[derive(Clone, Debug)]
    pub struct Plan {
        /// N6: the next `build()` fails
        pub fail_build: bool,
        /// pool sizes above this fail to build (what the real pool does in the sandbox
        /// when the kernel refuses more stacks)
        pub max_spawn: usize,
        /// draw permutation / worker count / extra yields from the scheduler's RNG
        pub buggify: bool,
    }

    impl Default for Plan {
        fn default() -> Self {
            Plan { fail_build: false, max_spawn: 4096, buggify: true }
        }
    }

    #[derive(Clone, Debug, Default)]
    pub struct Stats {
        pub builds: u64,
        pub build_failures_injected: u64,
        pub build_failures_too_many: u64,
        /// every pool size requested through `num_threads(..).build()`
        pub pool_sizes: Vec<usize>,
        pub par_calls: u64,
        pub par_items: u64,
        pub workers_spawned: u64,
        pub max_workers: usize,
        pub calls_with_fewer_items_than_workers: u64,
        pub coin_single_worker: u64,
        pub coin_all_workers: u64,
        pub coin_reverse: u64,
        pub coin_identity: u64,
        pub coin_shuffle: u64,
        pub coin_yield: u64,
        pub inline_calls: u64,
        pub coin_caller_participates: u64,
    }

    #[derive(Default)]
    pub(crate) struct State {
        pub plan: Plan,
        pub stats: Stats,
        pub pool: Option<Rc<PoolInner>>,
    }

    thread_local! { pub(crate) static STATE: RefCell<State> = RefCell::new(State::default()); }

    pub fn begin(plan: Plan) {
        let old = STATE.with(|s| std::mem::replace(&mut *s.borrow_mut(), State { plan, stats: Stats::default(), pool: None }));
        forget_pool(old);
    }

    pub fn end() -> Stats {
        let mut old = STATE.with(|s| std::mem::take(&mut *s.borrow_mut()));
        let stats = std::mem::take(&mut old.stats);
        forget_pool(old);
        stats
    }

    /// A pool reference left behind by an execution that was aborted (a task panicked while the
    /// caller was inside `scope`) belongs to a dead execution: its mutex must never be touched
    /// again, so the reference is leaked instead of dropped.
    fn forget_pool(mut old: State) {
        if let Some(p) = old.pool.take() {
            std::mem::forget(p);
        }
    }
}

use control::STATE;

#[derive(Debug)]
pub struct ThreadPoolBuildError(&'static str);

impl fmt::Display for ThreadPoolBuildError {
    fn fmt(&self, f: &mut fmt::Formatter<'_>) -> fmt::Result {
        write!(f, "simulated thread pool build error: {}", self.0)
    }
}

impl std::error::Error for ThreadPoolBuildError {}

#[derive(Default, Debug)]
pub struct ThreadPoolBuilder {
    n: usize,
    adopt_caller: bool,
}

impl ThreadPoolBuilder {
    pub fn new() -> Self {
        Self::default()
    }

    pub fn num_threads(mut self, n: usize) -> Self {
        self.n = n;
        self
    }

    // the rest of the builder's surface is accepted and has no effect on simulated workers

    pub fn stack_size(self, _bytes: usize) -> Self {
        self
    }

    pub fn thread_name<F>(self, _f: F) -> Self
    where
        F: FnMut(usize) -> String + 'static,
    {
        self
    }

    pub fn breadth_first(self) -> Self {
        self
    }

    /// As in rayon: the calling thread becomes a worker of the pool and stays registered as one
    /// for the rest of its life; a thread that already is a worker of some pool cannot adopt
    /// itself into another (the build fails). Scheduling is not changed by it here (the pool
    /// still runs `n` simulated workers, an over-approximation).
    pub fn use_current_thread(mut self) -> Self {
        self.adopt_caller = true;
        self
    }

    pub fn build(self) -> Result<ThreadPool, ThreadPoolBuildError> {
        STATE.with(|s| {
            let mut s = s.borrow_mut();
            s.stats.builds += 1;
            s.stats.pool_sizes.push(self.n);
            if s.plan.fail_build {
                s.plan.fail_build = false;
                s.stats.build_failures_injected += 1;
                Err(ThreadPoolBuildError("injected"))
            } else if self.n > s.plan.max_spawn {
                s.stats.build_failures_too_many += 1;
                Err(ThreadPoolBuildError("cannot spawn that many threads"))
            } else if self.adopt_caller && ADOPTED.with(|a| a.replace(true)) {
                Err(ThreadPoolBuildError("the current thread is already a worker of a thread pool"))
            } else {
                Ok(ThreadPool { inner: Rc::new(PoolInner::new(self.n.max(1))) })
            }
        })
    }
}

type ErasedJob = &'static (dyn Fn() + Sync);

struct St {
    gen: u64,
    job: Option<ErasedJob>,
    slots_left: usize,
    finished: usize,
    shutdown: bool,
}

struct Shared {
    m: shuttle::sync::Mutex<St>,
    work: shuttle::sync::Condvar,
    done: shuttle::sync::Condvar,
}

/// Persistent simulated workers (spawned lazily, reused by every parallel call of the pool,
/// joined when the pool is dropped) — as in rayon, and it keeps the number of simulated
/// threads per execution at <= K instead of one batch of threads per parallel call.
pub(crate) struct PoolInner {
    k: usize,
    shared: Arc<Shared>,
    handles: RefCell<Vec<shuttle::thread::JoinHandle<()>>>,
}

fn worker(shared: Arc<Shared>) {
    let mut last_gen = 0u64;
    loop {
        let mut st = shared.m.lock().unwrap();
        loop {
            if st.shutdown {
                return;
            }
            if st.job.is_some() && st.slots_left > 0 && st.gen != last_gen {
                break;
            }
            st = shared.work.wait(st).unwrap();
        }
        st.slots_left -= 1;
        last_gen = st.gen;
        let job = st.job.unwrap();
        drop(st);
        job();
        let mut st = shared.m.lock().unwrap();
        st.finished += 1;
        shared.done.notify_all();
        drop(st);
    }
}

impl PoolInner {
    fn new(k: usize) -> Self {
        PoolInner {
            k,
            shared: Arc::new(Shared {
                m: shuttle::sync::Mutex::new(St { gen: 0, job: None, slots_left: 0, finished: 0, shutdown: false }),
                work: shuttle::sync::Condvar::new(),
                done: shuttle::sync::Condvar::new(),
            }),
            handles: RefCell::new(Vec::new()),
        }
    }

    fn ensure_workers(&self, n: usize) {
        let mut h = self.handles.borrow_mut();
        while h.len() < n {
            let shared = self.shared.clone();
            h.push(shuttle::thread::spawn(move || worker(shared)));
            STATE.with(|s| s.borrow_mut().stats.workers_spawned += 1);
        }
    }

    /// run `job` on `n` pool workers (plus the caller if `caller_too`), return when all are done
    fn run_batch(&self, job: &(dyn Fn() + Sync), n: usize, caller_too: bool) {
        self.ensure_workers(n);
        // SAFETY: the reference is only used by workers between the two critical sections
        // below; this function does not return before every participating worker has
        // reported `finished`, so the borrow outlives every use.
        let erased: ErasedJob = unsafe { std::mem::transmute::<&(dyn Fn() + Sync), ErasedJob>(job) };
        {
            let mut st = self.shared.m.lock().unwrap();
            st.gen += 1;
            st.job = Some(erased);
            st.slots_left = n;
            st.finished = 0;
            self.shared.work.notify_all();
        }
        if caller_too {
            job();
        }
        let mut st = self.shared.m.lock().unwrap();
        while st.finished < n {
            st = self.shared.done.wait(st).unwrap();
        }
        st.job = None;
    }
}

impl Drop for PoolInner {
    fn drop(&mut self) {
        if std::thread::panicking() {
            return;
        }
        // outside a live simulated execution (e.g. thread-local destruction at thread exit after
        // an aborted execution) the simulator's primitives panic; never let that escape a drop
        let shared = self.shared.clone();
        let handles: Vec<_> = self.handles.borrow_mut().drain(..).collect();
        let _ = std::panic::catch_unwind(std::panic::AssertUnwindSafe(move || {
            {
                let mut st = shared.m.lock().unwrap();
                st.shutdown = true;
                shared.work.notify_all();
            }
            for h in handles {
                let _ = h.join();
            }
        }));
    }
}

pub struct ThreadPool {
    inner: Rc<PoolInner>,
}

impl fmt::Debug for ThreadPool {
    fn fmt(&self, f: &mut fmt::Formatter<'_>) -> fmt::Result {
        write!(f, "ThreadPool({})", self.inner.k)
    }
}

type ScopeJob<'scope> = Box<dyn FnOnce(&Scope<'scope>) + Send + 'scope>;

pub struct Scope<'scope> {
    spawned: std::sync::Mutex<Vec<ScopeJob<'scope>>>,
    _marker: PhantomData<&'scope ()>,
}

impl<'scope> Scope<'scope> {
    fn new() -> Self {
        Scope { spawned: std::sync::Mutex::new(Vec::new()), _marker: PhantomData }
    }

    /// `scope.spawn`: the job runs on some worker before the scope returns. The stand-in starts
    /// spawned jobs once the scope body has returned (rayon may start them earlier; it
    /// guarantees only that they are done when `scope` returns).
    pub fn spawn<BODY>(&self, body: BODY)
    where
        BODY: FnOnce(&Scope<'scope>) + Send + 'scope,
    {
        self.spawned.lock().unwrap().push(Box::new(body));
    }

    fn drain(&self) {
        loop {
            let jobs: Vec<ScopeJob<'scope>> = std::mem::take(&mut *self.spawned.lock().unwrap());
            if jobs.is_empty() {
                break;
            }
            let cells: Vec<std::sync::Mutex<Option<ScopeJob<'scope>>>> = jobs.into_iter().map(|j| std::sync::Mutex::new(Some(j))).collect();
            let me = SendPtr(self as *const Scope<'scope>);
            let _ = par_map((0..cells.len()).collect(), &|i: usize| {
                let job = cells[i].lock().unwrap().take().unwrap();
                // SAFETY: `self` outlives this call; Scope is only shared for pushing jobs
                let sc: &Scope<'scope> = unsafe { &*me.get() };
                job(sc);
            });
        }
    }
}

struct SendPtr<T>(*const T);
unsafe impl<T> Send for SendPtr<T> {}
unsafe impl<T> Sync for SendPtr<T> {}
impl<T> SendPtr<T> {
    fn get(&self) -> *const T {
        self.0
    }
}

impl ThreadPool {
    pub fn current_num_threads(&self) -> usize {
        self.inner.k
    }

    /// `install`: run `op` inside this pool (parallel iterators in it use this pool)
    pub fn install<OP, R>(&self, op: OP) -> R
    where
        OP: FnOnce() -> R + Send,
        R: Send,
    {
        self.scope(|_| op())
    }

    pub fn scope<'scope, OP, R>(&self, op: OP) -> R
    where
        OP: FnOnce(&Scope<'scope>) -> R + Send,
        R: Send,
    {
        // restore the previous pool on unwind too (a panic inside `op` must not leave this pool
        // installed in the thread-local state)
        struct Restore(Option<Option<Rc<PoolInner>>>);
        impl Drop for Restore {
            fn drop(&mut self) {
                if let Some(old) = self.0.take() {
                    let cur = STATE.with(|s| std::mem::replace(&mut s.borrow_mut().pool, old));
                    if std::thread::panicking() {
                        std::mem::forget(cur);
                    }
                }
            }
        }
        let old = STATE.with(|s| s.borrow_mut().pool.replace(self.inner.clone()));
        let _restore = Restore(Some(old));
        let sc = Scope::new();
        let r = op(&sc);
        sc.drain();
        r
    }
}

shuttle::thread_local! {
    /// this simulated thread was adopted as a worker by `use_current_thread` (for good)
    static ADOPTED: std::cell::Cell<bool> = std::cell::Cell::new(false);
}

shuttle::thread_local! {
    /// this simulated thread is currently executing items of a parallel call: a nested parallel
    /// call made from inside such an item runs inline (the pool has one job slot)
    static BUSY: std::cell::Cell<bool> = std::cell::Cell::new(false);
}

fn coin(n: u64) -> u64 {
    use shuttle::rand::RngCore;
    shuttle::rand::thread_rng().next_u64() % n
}

/// Run `f` over `items` on simulated workers; returns per-worker result chunks.
fn par_map<T: Send, R: Send>(mut items: Vec<T>, f: &(impl Fn(T) -> R + Sync)) -> Vec<Vec<R>> {
    use shuttle::sync::Mutex;
    let (pool, buggify) = STATE.with(|s| {
        let s = s.borrow();
        (s.pool.clone(), s.plan.buggify)
    });
    let k = pool.as_ref().map(|p| p.k).unwrap_or(1);
    let n = items.len();
    let max_w = k.min(n.max(1));
    let mut workers = max_w;
    let mut yields = false;
    let mut caller_too = false;
    if buggify {
        // worker count
        match coin(4) {
            0 => {
                workers = 1;
                STATE.with(|s| s.borrow_mut().stats.coin_single_worker += 1);
            }
            1 => {
                workers = max_w;
                STATE.with(|s| s.borrow_mut().stats.coin_all_workers += 1);
            }
            _ => workers = 1 + coin(max_w as u64) as usize,
        }
        // processing order
        match coin(4) {
            0 => STATE.with(|s| s.borrow_mut().stats.coin_identity += 1),
            1 => {
                items.reverse();
                STATE.with(|s| s.borrow_mut().stats.coin_reverse += 1);
            }
            _ => {
                for i in (1..n).rev() {
                    let j = coin(i as u64 + 1) as usize;
                    items.swap(i, j);
                }
                STATE.with(|s| s.borrow_mut().stats.coin_shuffle += 1);
            }
        }
        yields = coin(3) == 0;
        if yields {
            STATE.with(|s| s.borrow_mut().stats.coin_yield += 1);
        }
        caller_too = coin(2) == 0;
    }
    STATE.with(|s| {
        let mut s = s.borrow_mut();
        s.stats.par_calls += 1;
        s.stats.par_items += n as u64;
        s.stats.max_workers = s.stats.max_workers.max(workers);
        if n < k {
            s.stats.calls_with_fewer_items_than_workers += 1;
        }
    });
    let nested = BUSY.with(|b| b.get());
    let pool = match pool {
        Some(p) if workers > 1 && !nested => p,
        _ => {
            // the calling thread does all the work itself (rayon's caller participates)
            STATE.with(|s| s.borrow_mut().stats.inline_calls += 1);
            let mut out = Vec::with_capacity(n);
            for it in items {
                if yields {
                    shuttle::thread::sleep(std::time::Duration::from_nanos(0));
                }
                out.push(f(it));
            }
            return vec![out];
        }
    };
    let queue = Mutex::new(items.into_iter());
    let outs: Mutex<Vec<Vec<R>>> = Mutex::new(Vec::with_capacity(workers));
    let job = || {
        let mut out = Vec::new();
        let was = BUSY.with(|b| b.replace(true));
        loop {
            let item = queue.lock().unwrap().next();
            match item {
                Some(it) => {
                    if yields {
                        shuttle::thread::sleep(std::time::Duration::from_nanos(0));
                    }
                    out.push(f(it));
                }
                None => break,
            }
        }
        BUSY.with(|b| b.set(was));
        outs.lock().unwrap().push(out);
    };
    if caller_too {
        STATE.with(|s| s.borrow_mut().stats.coin_caller_participates += 1);
        pool.run_batch(&job, workers - 1, true);
    } else {
        pool.run_batch(&job, workers, false);
    }
    outs.into_inner().unwrap()
}

pub mod iter {
    //! The parallel-iterator surface: what cfr uses today plus the neighbouring rayon API a
    //! realistic change to cfr might reach for (`par_iter`, `into_par_iter`, `for_each`,
    //! `collect`, `reduce`, `filter`, `enumerate`, ...), so that such a change still builds
    //! against the stand-in. Everything funnels into `par_map`.
    use super::par_map;
    use std::collections::HashMap;
    use std::hash::{BuildHasher, Hash};
    use std::iter::Sum;
    use std::ops::{Range, RangeBounds};

    pub trait ParallelIterator: Sized + Send {
        type Item: Send;
        /// shim-internal: evaluate; per-worker result chunks, every item tagged with its index
        /// in the iterator's sequential order
        fn chunks_indexed(self) -> Vec<Vec<(usize, Self::Item)>>;

        /// shim-internal: per-worker result chunks (no order)
        fn chunks(self) -> Vec<Vec<Self::Item>> {
            self.chunks_indexed().into_iter().map(|c| c.into_iter().map(|(_, x)| x).collect()).collect()
        }

        /// shim-internal: all items in sequential order
        fn ordered(self) -> Vec<Self::Item> {
            let mut v: Vec<(usize, Self::Item)> = self.chunks_indexed().into_iter().flatten().collect();
            v.sort_by_key(|(i, _)| *i);
            v.into_iter().map(|(_, x)| x).collect()
        }

        fn map<F, R>(self, f: F) -> Map<Self, F>
        where
            F: Fn(Self::Item) -> R + Sync + Send,
            R: Send,
        {
            Map { base: self, f }
        }

        fn filter<P>(self, p: P) -> Filter<Self, P>
        where
            P: Fn(&Self::Item) -> bool + Sync + Send,
        {
            Filter { base: self, p }
        }

        fn filter_map<F, R>(self, f: F) -> FilterMap<Self, F>
        where
            F: Fn(Self::Item) -> Option<R> + Sync + Send,
            R: Send,
        {
            FilterMap { base: self, f }
        }

        fn for_each<F>(self, f: F)
        where
            F: Fn(Self::Item) + Sync + Send,
        {
            let _ = self.map(f).chunks();
        }

        fn sum<S>(self) -> S
        where
            S: Send + Sum<Self::Item> + Sum<S>,
        {
            self.chunks().into_iter().map(|c| c.into_iter().sum::<S>()).sum()
        }

        fn count(self) -> usize {
            self.chunks().into_iter().map(|c| c.len()).sum()
        }

        fn reduce<OP, ID>(self, identity: ID, op: OP) -> Self::Item
        where
            OP: Fn(Self::Item, Self::Item) -> Self::Item + Sync + Send,
            ID: Fn() -> Self::Item + Sync + Send,
        {
            // per-worker partial results combined in worker order: one of the groupings rayon's
            // reduction tree may produce
            let mut acc = identity();
            for c in self.chunks() {
                let mut part = identity();
                for x in c {
                    part = op(part, x);
                }
                acc = op(acc, part);
            }
            acc
        }

        fn collect<C>(self) -> C
        where
            C: FromParallelIterator<Self::Item>,
        {
            C::from_par_iter(self)
        }

        /// `fold`: one accumulator per block of items; the stand-in's blocks are its workers'
        /// chunks (rayon may split anywhere, so any blocking is legal)
        fn fold<T, ID, F>(self, identity: ID, fold_op: F) -> Items<T>
        where
            F: Fn(T, Self::Item) -> T + Sync + Send,
            ID: Fn() -> T + Sync + Send,
            T: Send,
        {
            // rayon folds each block of a split it chooses freely: the stand-in cuts the sequence
            // into a seeded number of contiguous blocks and folds each on some worker
            let items = self.ordered();
            let n = items.len();
            if n == 0 {
                return Items(Vec::new());
            }
            let nblocks = 1 + super::coin(n.min(8) as u64) as usize;
            let mut blocks: Vec<Vec<Self::Item>> = (0..nblocks).map(|_| Vec::new()).collect();
            for (i, x) in items.into_iter().enumerate() {
                blocks[i * nblocks / n].push(x);
            }
            let res = par_map(blocks, &|blk: Vec<Self::Item>| {
                let mut acc = identity();
                for x in blk {
                    acc = fold_op(acc, x);
                }
                acc
            });
            Items(res.into_iter().flatten().collect())
        }

        /// splitting hints: accepted, without effect (results must not depend on them)
        fn with_min_len(self, _min: usize) -> Self {
            self
        }

        fn with_max_len(self, _max: usize) -> Self {
            self
        }

        fn max_by<F>(self, f: F) -> Option<Self::Item>
        where
            F: Fn(&Self::Item, &Self::Item) -> std::cmp::Ordering + Sync + Send,
        {
            self.ordered().into_iter().max_by(|a, b| f(a, b))
        }

        fn min_by<F>(self, f: F) -> Option<Self::Item>
        where
            F: Fn(&Self::Item, &Self::Item) -> std::cmp::Ordering + Sync + Send,
        {
            self.ordered().into_iter().min_by(|a, b| f(a, b))
        }

        fn any<P>(self, p: P) -> bool
        where
            P: Fn(Self::Item) -> bool + Sync + Send,
        {
            self.map(p).chunks().into_iter().flatten().any(|b| b)
        }

        fn all<P>(self, p: P) -> bool
        where
            P: Fn(Self::Item) -> bool + Sync + Send,
        {
            self.map(p).chunks().into_iter().flatten().all(|b| b)
        }
    }

    /// every iterator of the stand-in knows its order, so the indexed adaptors live here
    pub trait IndexedParallelIterator: ParallelIterator {
        fn enumerate(self) -> Items<(usize, Self::Item)> {
            Items(self.ordered().into_iter().enumerate().collect())
        }

        fn zip<Z>(self, other: Z) -> Items<(Self::Item, <Z::Iter as ParallelIterator>::Item)>
        where
            Z: IntoParallelIterator,
        {
            Items(self.ordered().into_iter().zip(other.into_par_iter().ordered()).collect())
        }
    }

    impl<T: ParallelIterator> IndexedParallelIterator for T {}

    pub trait FromParallelIterator<T: Send> {
        fn from_par_iter<I: IntoParallelIterator<Item = T>>(it: I) -> Self;
    }

    impl<T: Send> FromParallelIterator<T> for Vec<T> {
        fn from_par_iter<I: IntoParallelIterator<Item = T>>(it: I) -> Self {
            it.into_par_iter().ordered()
        }
    }

    impl<K: Eq + Hash + Send, V: Send, S: BuildHasher + Default + Send> FromParallelIterator<(K, V)> for HashMap<K, V, S> {
        fn from_par_iter<I: IntoParallelIterator<Item = (K, V)>>(it: I) -> Self {
            let mut m = HashMap::default();
            for c in it.into_par_iter().chunks() {
                m.extend(c);
            }
            m
        }
    }

    pub trait IntoParallelIterator {
        type Iter: ParallelIterator<Item = Self::Item>;
        type Item: Send;
        fn into_par_iter(self) -> Self::Iter;
    }

    impl<T: ParallelIterator> IntoParallelIterator for T {
        type Iter = T;
        type Item = T::Item;
        fn into_par_iter(self) -> T {
            self
        }
    }

    impl<T: Send> IntoParallelIterator for Vec<T> {
        type Iter = Items<T>;
        type Item = T;
        fn into_par_iter(self) -> Items<T> {
            Items(self)
        }
    }

    impl<'a, T: Sync + 'a> IntoParallelIterator for &'a Vec<T> {
        type Iter = Items<&'a T>;
        type Item = &'a T;
        fn into_par_iter(self) -> Items<&'a T> {
            Items(self.iter().collect())
        }
    }

    impl<'a, T: Sync + 'a> IntoParallelIterator for &'a [T] {
        type Iter = Items<&'a T>;
        type Item = &'a T;
        fn into_par_iter(self) -> Items<&'a T> {
            Items(self.iter().collect())
        }
    }

    impl<'a, T: Send + 'a> IntoParallelIterator for &'a mut Vec<T> {
        type Iter = Items<&'a mut T>;
        type Item = &'a mut T;
        fn into_par_iter(self) -> Items<&'a mut T> {
            Items(self.iter_mut().collect())
        }
    }

    impl<'a, T: Send + 'a> IntoParallelIterator for &'a mut [T] {
        type Iter = Items<&'a mut T>;
        type Item = &'a mut T;
        fn into_par_iter(self) -> Items<&'a mut T> {
            Items(self.iter_mut().collect())
        }
    }

    impl IntoParallelIterator for Range<usize> {
        type Iter = Items<usize>;
        type Item = usize;
        fn into_par_iter(self) -> Items<usize> {
            Items(self.collect())
        }
    }

    impl IntoParallelIterator for Range<u64> {
        type Iter = Items<u64>;
        type Item = u64;
        fn into_par_iter(self) -> Items<u64> {
            Items(self.collect())
        }
    }

    pub struct Map<I, F> {
        base: I,
        f: F,
    }

    impl<I: ParallelIterator, F, R> ParallelIterator for Map<I, F>
    where
        F: Fn(I::Item) -> R + Sync + Send,
        R: Send,
    {
        type Item = R;
        fn chunks_indexed(self) -> Vec<Vec<(usize, R)>> {
            let items: Vec<(usize, I::Item)> = self.base.chunks_indexed().into_iter().flatten().collect();
            let f = self.f;
            par_map(items, &|(i, x)| (i, f(x)))
        }
    }

    pub struct Filter<I, P> {
        base: I,
        p: P,
    }

    impl<I: ParallelIterator, P> ParallelIterator for Filter<I, P>
    where
        P: Fn(&I::Item) -> bool + Sync + Send,
    {
        type Item = I::Item;
        fn chunks_indexed(self) -> Vec<Vec<(usize, I::Item)>> {
            let items: Vec<(usize, I::Item)> = self.base.chunks_indexed().into_iter().flatten().collect();
            let p = self.p;
            par_map(items, &|(i, x)| if p(&x) { Some((i, x)) } else { None }).into_iter().map(|c| c.into_iter().flatten().collect()).collect()
        }
    }

    pub struct FilterMap<I, F> {
        base: I,
        f: F,
    }

    impl<I: ParallelIterator, F, R> ParallelIterator for FilterMap<I, F>
    where
        F: Fn(I::Item) -> Option<R> + Sync + Send,
        R: Send,
    {
        type Item = R;
        fn chunks_indexed(self) -> Vec<Vec<(usize, R)>> {
            let items: Vec<(usize, I::Item)> = self.base.chunks_indexed().into_iter().flatten().collect();
            let f = self.f;
            par_map(items, &|(i, x)| f(x).map(|y| (i, y))).into_iter().map(|c| c.into_iter().flatten().collect()).collect()
        }
    }

    pub struct Items<T>(pub(crate) Vec<T>);

    impl<T: Send> ParallelIterator for Items<T> {
        type Item = T;
        fn chunks_indexed(self) -> Vec<Vec<(usize, T)>> {
            vec![self.0.into_iter().enumerate().collect()]
        }
    }

    pub trait ParallelDrainRange<Idx = usize> {
        type Iter: ParallelIterator<Item = Self::Item>;
        type Item: Send;
        fn par_drain<R: RangeBounds<Idx>>(self, range: R) -> Self::Iter;
    }

    impl<'a, T: Send> ParallelDrainRange<usize> for &'a mut Vec<T> {
        type Iter = Items<T>;
        type Item = T;
        fn par_drain<R: RangeBounds<usize>>(self, range: R) -> Items<T> {
            Items(self.drain(range).collect())
        }
    }

    pub trait ParallelExtend<T: Send> {
        fn par_extend<I>(&mut self, par_iter: I)
        where
            I: IntoParallelIterator<Item = T>;
    }

    impl<K: Eq + Hash + Send, V: Send, S: BuildHasher + Send> ParallelExtend<(K, V)> for HashMap<K, V, S> {
        fn par_extend<I>(&mut self, par_iter: I)
        where
            I: IntoParallelIterator<Item = (K, V)>,
        {
            for c in par_iter.into_par_iter().chunks() {
                self.extend(c);
            }
        }
    }

    impl<T: Send> ParallelExtend<T> for Vec<T> {
        fn par_extend<I>(&mut self, par_iter: I)
        where
            I: IntoParallelIterator<Item = T>,
        {
            self.extend(par_iter.into_par_iter().ordered());
        }
    }

    pub trait IntoParallelRefIterator<'data> {
        type Iter: ParallelIterator<Item = Self::Item>;
        type Item: Send + 'data;
        fn par_iter(&'data self) -> Self::Iter;
    }

    impl<'data, T: Sync + 'data> IntoParallelRefIterator<'data> for [T] {
        type Iter = Items<&'data T>;
        type Item = &'data T;
        fn par_iter(&'data self) -> Self::Iter {
            Items(self.iter().collect())
        }
    }

    impl<'data, T: Sync + 'data> IntoParallelRefIterator<'data> for Vec<T> {
        type Iter = Items<&'data T>;
        type Item = &'data T;
        fn par_iter(&'data self) -> Self::Iter {
            Items(self.iter().collect())
        }
    }

    impl<'data, K: Sync + 'data, V: Sync + 'data, S: 'data> IntoParallelRefIterator<'data> for HashMap<K, V, S> {
        type Iter = Items<(&'data K, &'data V)>;
        type Item = (&'data K, &'data V);
        fn par_iter(&'data self) -> Self::Iter {
            Items(self.iter().collect())
        }
    }

    /// `par_chunks` and friends on slices
    pub trait ParallelSlice<T: Sync> {
        fn as_parallel_slice(&self) -> &[T];

        fn par_chunks(&self, size: usize) -> Items<&[T]> {
            Items(self.as_parallel_slice().chunks(size).collect())
        }

        fn par_chunks_exact(&self, size: usize) -> Items<&[T]> {
            Items(self.as_parallel_slice().chunks_exact(size).collect())
        }
    }

    impl<T: Sync> ParallelSlice<T> for [T] {
        fn as_parallel_slice(&self) -> &[T] {
            self
        }
    }

    pub trait ParallelSliceMut<T: Send> {
        fn as_parallel_slice_mut(&mut self) -> &mut [T];

        fn par_chunks_mut(&mut self, size: usize) -> Items<&mut [T]> {
            Items(self.as_parallel_slice_mut().chunks_mut(size).collect())
        }

        fn par_chunks_exact_mut(&mut self, size: usize) -> Items<&mut [T]> {
            Items(self.as_parallel_slice_mut().chunks_exact_mut(size).collect())
        }
    }

    impl<T: Send> ParallelSliceMut<T> for [T] {
        fn as_parallel_slice_mut(&mut self) -> &mut [T] {
            self
        }
    }

    pub trait IntoParallelRefMutIterator<'data> {
        type Iter: ParallelIterator<Item = Self::Item>;
        type Item: Send + 'data;
        fn par_iter_mut(&'data mut self) -> Self::Iter;
    }

    impl<'data, T: Send + 'data> IntoParallelRefMutIterator<'data> for [T] {
        type Iter = Items<&'data mut T>;
        type Item = &'data mut T;
        fn par_iter_mut(&'data mut self) -> Self::Iter {
            Items(self.iter_mut().collect())
        }
    }

    impl<'data, T: Send + 'data> IntoParallelRefMutIterator<'data> for Vec<T> {
        type Iter = Items<&'data mut T>;
        type Item = &'data mut T;
        fn par_iter_mut(&'data mut self) -> Self::Iter {
            Items(self.iter_mut().collect())
        }
    }
}

pub mod slice {
    pub use crate::iter::{ParallelSlice, ParallelSliceMut};
}

pub mod prelude {
    pub use crate::iter::{
        FromParallelIterator, IndexedParallelIterator, IntoParallelIterator, IntoParallelRefIterator, IntoParallelRefMutIterator, ParallelDrainRange, ParallelExtend, ParallelIterator,
    };
    pub use crate::slice::{ParallelSlice, ParallelSliceMut};
}

/// `rayon::join`: both closures may run on different workers, in either order.
pub fn join<A, B, RA, RB>(a: A, b: B) -> (RA, RB)
where
    A: FnOnce() -> RA + Send,
    B: FnOnce() -> RB + Send,
    RA: Send,
    RB: Send,
{
    use std::sync::Mutex;
    let fa = Mutex::new(Some(a));
    let fb = Mutex::new(Some(b));
    let ra: Mutex<Option<RA>> = Mutex::new(None);
    let rb: Mutex<Option<RB>> = Mutex::new(None);
    let _ = par_map(vec![0usize, 1], &|i| {
        if i == 0 {
            let f = fa.lock().unwrap().take().unwrap();
            let v = f();
            *ra.lock().unwrap() = Some(v);
        } else {
            let f = fb.lock().unwrap().take().unwrap();
            let v = f();
            *rb.lock().unwrap() = Some(v);
        }
    });
    let x = ra.into_inner().unwrap().unwrap();
    let y = rb.into_inner().unwrap().unwrap();
    (x, y)
}

/// number of threads of the pool the caller runs in (1 outside any pool)
pub fn current_num_threads() -> usize {
    STATE.with(|s| s.borrow().pool.as_ref().map(|p| p.k).unwrap_or(1))
}
