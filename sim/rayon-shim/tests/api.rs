//! Self-test of the stand-in's parallel-iterator surface under seeded schedules.
use verif_rayon_shim::prelude::*;
use verif_rayon_shim::{control, ThreadPoolBuilder};

fn in_pool<R: Send>(k: usize, f: impl FnOnce() -> R + Send) -> R {
    control::begin(control::Plan::default());
    let pool = ThreadPoolBuilder::new().num_threads(k).build().unwrap();
    let r = pool.install(f);
    drop(pool);
    control::end();
    r
}

#[test]
fn surface() {
    shuttle::check_random(
        || {
            let v: Vec<u64> = (0..37).collect();
            let s: u64 = in_pool(4, || v.par_iter().map(|x| x * 2).sum());
            assert_eq!(s, 2 * (0..37u64).sum::<u64>());
            let c: Vec<u64> = in_pool(3, || v.par_iter().map(|x| x + 1).collect());
            assert_eq!(c, (1..38).collect::<Vec<u64>>());
            let c: Vec<(usize, u64)> = in_pool(3, || v.clone().into_par_iter().filter(|x| x % 3 == 0).enumerate().collect());
            assert_eq!(c.len(), 13);
            assert!(c.iter().enumerate().all(|(i, (j, x))| i == *j && *x == 3 * i as u64));
            let m = in_pool(5, || (0..100usize).into_par_iter().map(|x| x as u64).reduce(|| 0, |a, b| a.max(b)));
            assert_eq!(m, 99);
            let (a, b) = in_pool(2, || verif_rayon_shim::join(|| 1 + 1, || "x".to_string()));
            assert_eq!((a, b.as_str()), (2, "x"));
            // nested parallel call from inside an item
            let t: u64 = in_pool(4, || (0..6u64).into_par_iter().map(|i| (0..5u64).into_par_iter().map(|j| i * j).sum::<u64>()).sum());
            assert_eq!(t, (0..6u64).map(|i| (0..5u64).map(|j| i * j).sum::<u64>()).sum::<u64>());
            // scope.spawn, including a nested spawn
            let hits = std::sync::atomic::AtomicUsize::new(0);
            control::begin(control::Plan::default());
            let pool = ThreadPoolBuilder::new().num_threads(3).build().unwrap();
            pool.scope(|s| {
                for _ in 0..4 {
                    s.spawn(|s2| {
                        hits.fetch_add(1, std::sync::atomic::Ordering::SeqCst);
                        s2.spawn(|_| {
                            hits.fetch_add(10, std::sync::atomic::Ordering::SeqCst);
                        });
                    });
                }
            });
            drop(pool);
            control::end();
            assert_eq!(hits.load(std::sync::atomic::Ordering::SeqCst), 44);
            let mut w = vec![1u64, 2, 3, 4, 5];
            in_pool(2, || w.par_iter_mut().for_each(|x| *x *= 10));
            assert_eq!(w, vec![10, 20, 30, 40, 50]);
        },
        200,
    );
}
