//! Stand-in for `portable_atomic::AtomicF64`: the same read-modify-write semantics on
//! top of shuttle's `AtomicU64`, so that every atomic float update of the solver is a
//! scheduling point of the simulator.
use shuttle::sync::atomic::AtomicU64;
use std::sync::atomic::Ordering;

pub struct AtomicF64 {
    bits: AtomicU64,
}

impl std::fmt::Debug for AtomicF64 {
    fn fmt(&self, f: &mut std::fmt::Formatter<'_>) -> std::fmt::Result {
        write!(f, "AtomicF64")
    }
}

impl AtomicF64 {
    pub fn new(v: f64) -> Self {
        AtomicF64 { bits: AtomicU64::new(v.to_bits()) }
    }

    pub fn get_mut(&mut self) -> &mut f64 {
        // SAFETY: u64 and f64 have the same size and alignment and every bit pattern is
        // valid for both; the exclusive borrow is passed on unchanged.
        unsafe { &mut *(self.bits.get_mut() as *mut u64 as *mut f64) }
    }

    pub fn load(&self, o: Ordering) -> f64 {
        f64::from_bits(self.bits.load(o))
    }

    pub fn store(&self, v: f64, o: Ordering) {
        self.bits.store(v.to_bits(), o)
    }

    pub fn fetch_add(&self, v: f64, o: Ordering) -> f64 {
        f64::from_bits(self.bits.fetch_update(o, Ordering::Relaxed, |b| Some((f64::from_bits(b) + v).to_bits())).unwrap())
    }

    pub fn fetch_sub(&self, v: f64, o: Ordering) -> f64 {
        f64::from_bits(self.bits.fetch_update(o, Ordering::Relaxed, |b| Some((f64::from_bits(b) - v).to_bits())).unwrap())
    }

    pub fn into_inner(self) -> f64 {
        f64::from_bits(self.bits.into_inner())
    }

    // the rest of portable_atomic::AtomicF64's surface, so that a change to the solvers that
    // reaches for another operation still builds against the stand-in

    pub fn swap(&self, v: f64, o: Ordering) -> f64 {
        f64::from_bits(self.bits.swap(v.to_bits(), o))
    }

    pub fn compare_exchange(&self, current: f64, new: f64, success: Ordering, failure: Ordering) -> Result<f64, f64> {
        self.bits.compare_exchange(current.to_bits(), new.to_bits(), success, failure).map(f64::from_bits).map_err(f64::from_bits)
    }

    pub fn compare_exchange_weak(&self, current: f64, new: f64, success: Ordering, failure: Ordering) -> Result<f64, f64> {
        self.bits.compare_exchange_weak(current.to_bits(), new.to_bits(), success, failure).map(f64::from_bits).map_err(f64::from_bits)
    }

    pub fn fetch_update<F>(&self, set: Ordering, fetch: Ordering, mut f: F) -> Result<f64, f64>
    where
        F: FnMut(f64) -> Option<f64>,
    {
        self.bits.fetch_update(set, fetch, |b| f(f64::from_bits(b)).map(f64::to_bits)).map(f64::from_bits).map_err(f64::from_bits)
    }

    pub fn fetch_max(&self, v: f64, o: Ordering) -> f64 {
        f64::from_bits(self.bits.fetch_update(o, Ordering::Relaxed, |b| Some(f64::from_bits(b).max(v).to_bits())).unwrap())
    }

    pub fn fetch_min(&self, v: f64, o: Ordering) -> f64 {
        f64::from_bits(self.bits.fetch_update(o, Ordering::Relaxed, |b| Some(f64::from_bits(b).min(v).to_bits())).unwrap())
    }

    pub fn fetch_neg(&self, o: Ordering) -> f64 {
        f64::from_bits(self.bits.fetch_update(o, Ordering::Relaxed, |b| Some((-f64::from_bits(b)).to_bits())).unwrap())
    }

    pub fn fetch_abs(&self, o: Ordering) -> f64 {
        f64::from_bits(self.bits.fetch_update(o, Ordering::Relaxed, |b| Some(f64::from_bits(b).abs().to_bits())).unwrap())
    }

    pub fn add(&self, v: f64, o: Ordering) {
        self.fetch_add(v, o);
    }

    pub fn sub(&self, v: f64, o: Ordering) {
        self.fetch_sub(v, o);
    }
}

impl Default for AtomicF64 {
    fn default() -> Self {
        AtomicF64::new(0.0)
    }
}

impl From<f64> for AtomicF64 {
    fn from(v: f64) -> Self {
        AtomicF64::new(v)
    }
}
